"""Evaluate one seeded change against the checks.

usage: seed_eval.py <seed dir with patch.diff and demo.py> <property id> [more property ids ...] [--tier quick]

Steps (all against /repo itself, undone afterwards):
  0. demo on the unchanged tree must exit 0
  1. git -C /repo apply patch.diff
  2. repository baseline suite must still match BASELINE stable_pass
  3. demo must exit non-zero
  4. ./vf check <pid> for each property: record exit code and VIOLATION lines
  5. git -C /repo checkout -- .
Prints a JSON summary.
"""
import json
import os
import subprocess
import sys
import time

ROOT = os.path.dirname(os.path.dirname(os.path.abspath(__file__)))


def sh(cmd, cwd=None, timeout=3600, env=None):
    p = subprocess.run(cmd, shell=True, cwd=cwd, capture_output=True, text=True, timeout=timeout, env=env)
    return p.returncode, (p.stdout + p.stderr)


def main():
    args = [a for a in sys.argv[1:] if not a.startswith("--")]
    tier = "quick"
    if "--tier" in sys.argv:
        tier = sys.argv[sys.argv.index("--tier") + 1]
        args = [a for a in args if a != tier]
    repo = os.environ.get("VF_REPO", "/repo")
    seed = os.path.abspath(args[0])
    pids = args[1:]
    patch = os.path.join(seed, "patch.diff")
    demo = os.path.join(seed, "demo.py")
    env = dict(os.environ, PYTHONPATH=repo, MPLBACKEND="Agg")
    res = {"seed": seed, "tier": tier, "repo": repo}
    rc, out = sh(f"git -C {repo} status --porcelain")
    if out.strip():
        print("refusing: /repo working tree is not clean:\n" + out)
        return 2
    rc, out = sh(f"/venv/bin/python {demo}", cwd=repo, env=env, timeout=600)
    res["demo_unpatched_rc"] = rc
    rc, out = sh(f"git -C {repo} apply {patch}")
    if rc != 0:
        res["apply_error"] = out[-400:]
        print(json.dumps(res, indent=1))
        return 2
    try:
        rc, out = sh("/venv/bin/python " + os.path.join(ROOT, "tools/baseline_check.py"), cwd=repo, timeout=1800)
        res["baseline_rc"] = rc
        res["baseline"] = out.strip().splitlines()[-3:]
        rc, out = sh(f"/venv/bin/python {demo}", cwd=repo, env=env, timeout=600)
        res["demo_patched_rc"] = rc
        res["demo_patched_tail"] = out.strip().splitlines()[-3:]
        res["checks"] = {}
        for pid in pids:
            t = time.time()
            rc, out = sh(f"./vf check {pid} --tier {tier}", cwd=ROOT, timeout=7200)
            lines = [l for l in out.splitlines() if l.startswith("VIOLATION") or l.startswith("  key=") or l.startswith("vf:")]
            res["checks"][pid] = {"rc": rc, "wall_s": round(time.time() - t, 1), "lines": lines[:7]}
    finally:
        sh(f"git -C {repo} checkout -- .")
    print(json.dumps(res, indent=1))
    ok = res.get("baseline_rc") == 0 and res.get("demo_unpatched_rc") == 0 and res.get("demo_patched_rc", 0) != 0
    res["valid_seed"] = ok
    return 0


if __name__ == "__main__":
    sys.exit(main())
