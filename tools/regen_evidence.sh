#!/bin/bash
# regenerate every evidence file with the quick tier on the current /repo working tree and validate MANIFEST + evidence against the schemas
cd "$(dirname "$0")/.."
if [ -n "$(git -C /repo status --porcelain)" ]; then echo "/repo working tree is not clean"; exit 2; fi
rc=0
for p in $(/venv/bin/python -c "import json;print(' '.join(c['property_id'] for c in json.load(open('MANIFEST.json'))['checks']))" 2>/dev/null); do
  out=$(./vf check $p --tier quick 2>&1); r=$?
  echo "$out" | grep -E "^vf:|^VIOLATION|^KNOWN" | cut -c1-200
  [ $r -ne 0 ] && { echo "  !! $p exited $r"; rc=1; }
done
python3-vt - <<'PY'
import json, jsonschema, glob
jsonschema.validate(json.load(open('MANIFEST.json')), json.load(open('/root/.vp/MANIFEST.schema.json')))
for c in json.load(open('MANIFEST.json'))['checks']:
    jsonschema.validate(json.load(open(c['evidence_file'])), json.load(open('/root/.vp/EVIDENCE.schema.json')))
print("MANIFEST and", len(json.load(open('MANIFEST.json'))['checks']), "evidence files validate")
PY
exit $rc
