"""Literal confirmation of the archived seeded changes against /repo itself:
   git -C /repo apply <patch>;  ./vf check <property> --only <case that caught it>;  git -C /repo checkout -- .
Writes seeded/LITERAL_CONFIRMATION.json.  /repo must be clean; nothing is committed there."""
import json, os, re, subprocess, sys, time

ROOT = os.path.dirname(os.path.dirname(os.path.abspath(__file__)))
REPO = "/repo"


def sh(cmd, cwd=None, timeout=1800):
    p = subprocess.run(cmd, shell=True, cwd=cwd, capture_output=True, text=True, timeout=timeout)
    return p.returncode, p.stdout + p.stderr


def main():
    only = set(sys.argv[1:])
    rc, out = sh(f"git -C {REPO} status --porcelain")
    if out.strip():
        print("refusing: /repo is not clean")
        return 2
    head = sh(f"git -C {REPO} rev-parse --short HEAD")[1].strip()
    res = {"repo_head": head, "seeds": {}}
    outp = os.path.join(ROOT, "seeded", "LITERAL_CONFIRMATION.json")
    if os.path.exists(outp) and only:
        res = json.load(open(outp))
    for sid in sorted(os.listdir(os.path.join(ROOT, "seeded"))):
        d = os.path.join(ROOT, "seeded", sid)
        if not os.path.isfile(os.path.join(d, "meta.json")) or (only and sid not in only):
            continue
        meta = json.load(open(os.path.join(d, "meta.json")))
        entry = {"caught_by_in_archive": meta.get("caught_by", [])}
        res["seeds"][sid] = entry
        if not meta.get("caught_by"):
            entry["result"] = "not caught (see why_not_caught in meta.json); not re-run"
            continue
        rc, out = sh(f"git -C {REPO} apply --check {d}/patch.diff")
        if rc != 0:
            entry["result"] = "patch no longer applies to the current HEAD (later fix commits touched the same lines)"
            continue
        pid = meta["caught_by"][0]
        lines = meta.get("first_violation_lines", {}).get(pid, [])
        m = re.search(r"case=(\S+)", " ".join(lines))
        case = m.group(1) if m else None
        sh(f"git -C {REPO} apply {d}/patch.diff")
        try:
            t = time.time()
            cmd = f"./vf check {pid}" + (f" --only {case}" if case else "")
            rc, out = sh(cmd, cwd=ROOT, timeout=2400)
            viol = [l for l in out.splitlines() if l.startswith("VIOLATION")]
            entry.update({"cmd": cmd, "exit": rc, "violation_lines": len(viol), "wall_s": round(time.time() - t, 1),
                          "result": "caught" if rc == 1 and viol else "NOT caught by this command"})
        finally:
            sh(f"git -C {REPO} checkout -- .")
        print(sid, entry["result"], entry.get("cmd"), entry.get("wall_s"), flush=True)
        json.dump(res, open(outp, "w"), indent=1)
    rc, out = sh(f"git -C {REPO} status --porcelain")
    res["repo_clean_afterwards"] = not out.strip()
    json.dump(res, open(outp, "w"), indent=1)
    return 0


if __name__ == "__main__":
    sys.exit(main())
