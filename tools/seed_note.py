"""record an additional evaluation of an archived seed that was run by hand:
usage: seed_note.py <seed id> <property id> <exit code of ./vf check> "<first VIOLATION / summary line>" ["<command that was run>"]
(the change was applied to a scratch worktree with `git apply`, the check run with VF_REPO=<worktree>, the change reverted)"""
import json, os, sys

ROOT = os.path.dirname(os.path.dirname(os.path.abspath(__file__)))
seed, pid, rc, line = sys.argv[1], sys.argv[2], int(sys.argv[3]), sys.argv[4]
cmd = sys.argv[5] if len(sys.argv) > 5 else f"./vf check {pid} --tier quick"
p = f"{ROOT}/seeded/{seed}/meta.json"
m = json.load(open(p))
for k in ("caught_by", "not_caught_by"):
    m[k] = [x for x in m.get(k, []) if x != pid]
m["caught_by" if rc == 1 else "not_caught_by"].append(pid)
if rc == 1:
    m.setdefault("first_violation_lines", {})[pid] = [line]
else:
    m.get("first_violation_lines", {}).pop(pid, None)
m.setdefault("ran", []).append(f"(by hand, scratch worktree) git apply patch.diff; VF_REPO=<worktree> {cmd}; git checkout -- .")
json.dump(m, open(p, "w"), indent=1)
print(seed, "caught_by", m["caught_by"], "not_caught_by", m["not_caught_by"])
