#!/bin/bash
# usage: seed_batch.sh <PID>[b] [extra pids]   (a trailing b marks a second-round directory of the same property) evaluates /tmp/seed_out/<PID>/<PID>_k for k=1,2
P=$1; shift
for k in 1 2; do
  d=/tmp/seed_out/$P/${P}_$k
  [ -f $d/patch.diff ] || continue
  /venv/bin/python /verif/tools/seed_eval.py $d ${P%[bcd]} "$@" 2>/dev/null > /tmp/seed_out/$P/eval_$k.json
  /venv/bin/python -c "
import json,sys; d=json.load(open('/tmp/seed_out/$P/eval_$k.json')); print(d['seed'].split('/')[-1], 'demo', d['demo_unpatched_rc'], d.get('demo_patched_rc'), 'baseline', d.get('baseline_rc'), {k:(v['rc'],v['wall_s'],[l[:160] for l in v['lines'][:2]]) for k,v in d.get('checks',{}).items()})" 2>/dev/null
done
