"""copy evaluated seeds from /tmp/seed_out/<PID>/<PID>_k into /verif/seeded/<PID>_k with meta.json"""
import json, os, shutil, sys, subprocess
ROOT = os.path.dirname(os.path.dirname(os.path.abspath(__file__)))
src_root = "/tmp/seed_out"
for pid in sys.argv[1:]:
    for k in (1, 2, 3):
        d = f"{src_root}/{pid}/{pid}_{k}"
        ev = f"{src_root}/{pid}/eval_{k}.json"
        if not (os.path.isfile(d + "/patch.diff") and os.path.isfile(ev)):
            continue
        e = json.load(open(ev))
        # (early second-round evaluations also passed the directory name "Cxxb" as a property id: no such check)
        e["checks"] = {p: v for p, v in e.get("checks", {}).items() if not (v["rc"] == 3 and any("no check" in l for l in v["lines"]))}
        out = f"{ROOT}/seeded/{pid}_{k}"
        os.makedirs(out, exist_ok=True)
        for f in ("patch.diff", "demo.py", "notes.txt"):
            if os.path.isfile(f"{d}/{f}"):
                shutil.copy(f"{d}/{f}", f"{out}/{f}")
        notes = open(f"{d}/notes.txt").read() if os.path.isfile(f"{d}/notes.txt") else ""
        caught = [p for p, v in e.get("checks", {}).items() if v["rc"] == 1]
        missed = [p for p, v in e.get("checks", {}).items() if v["rc"] == 0]
        meta = {
            "id": f"{pid}_{k}",
            "breaks_property": pid.rstrip("bcd"),
            "origin": "written by an independent sub-agent that saw only the property text and its own scratch worktree",
            "needs_to_manifest": notes.strip().split("\n\n")[0][:1500],
            "confirmed": {
                "applies_to_head": "apply_error" not in e,
                "baseline_suite_with_change": e.get("baseline"),
                "baseline_rc": e.get("baseline_rc"),
                "demo_exit_without_change": e.get("demo_unpatched_rc"),
                "demo_exit_with_change": e.get("demo_patched_rc"),
            },
            "ran": [f"git -C {e.get('repo', '/repo')} apply patch.diff", "python tools/baseline_check.py", "python demo.py"] +
                   [f"./vf check {p} --tier {e.get('tier', 'quick')}" for p in e.get("checks", {})] + ["git checkout -- ."],
            "caught_by": caught,
            "not_caught_by": missed,
            "first_violation_lines": {p: v["lines"][:2] for p, v in e.get("checks", {}).items() if v["rc"] == 1},
            "check_wall_s": {p: v["wall_s"] for p, v in e.get("checks", {}).items()},
        }
        json.dump(meta, open(f"{out}/meta.json", "w"), indent=1)
        print(pid, k, "caught_by", caught, "missed", missed)
