"""Regenerates /verif/MANIFEST.json from the table below (run after adding or changing a check)."""
import json
import os

ROOT = os.path.dirname(os.path.dirname(os.path.abspath(__file__)))

E2 = "SymNum (symbolic execution of the real NumPy code over z3 terms)"
E1 = "CrossHair (symbolic execution of the real Python code, z3)"

CHECKS = {
    "C02": dict(
        engine="E2",
        technique="symbolic execution of the real BHJM_* wrappers and magnet setters over z3 real terms (SymNum); per feasible path the "
        "identity is an SMT obligation (QF_NRA, z3 smt+nlsat portfolio) for all real inputs; counterexamples replayed in doubles",
        text="Bounded symbolic model checking of the real code: every feasible mask/branch combination of each wrapper (1-2 rows per "
        "call) is enumerated by solver feasibility queries and B=mu0*H+J, J=mu0*M, J=0 (non-magnets), J=polarization strictly inside / 0 "
        "strictly outside are discharged as unsat obligations for ALL real observers, dimensions and excitations of that path; for "
        "CylinderSegment additionally per committed section (incl. sections written with angles below -180 or beyond 360 degrees) with a "
        "geometric inside oracle in the observer's azimuth. "
        "Right level: the defects live on measure-zero pieces (edges, surfaces, batch couplings) that only a solver picks.",
        note="Assumes real-arithmetic semantics (rounding not modelled; counterexamples must reproduce in IEEE doubles to be reported); leaf "
        "kernels cel/ellipe/ellipk/cel_iter/cylinder-segment H kernel/triangle kernel are uninterpreted (identity is independent of them); "
        "tetrahedron vertices and polyline endpoints from fixed rational lists; TriangularMesh wrapper not run here. Trusted: z3, the "
        "SymNum proxies (validated against the unpatched library with concrete inputs on every run).",
        design="3/C02",
    ),
    "C06": dict(
        engine="E2",
        technique="symbolic execution of the real BHJM_* wrappers (2-row batches vs 1-row and swapped calls) and of the real getBH_level2 "
        "with uninterpreted per-source field functions over z3 terms; element identities discharged as SMT obligations per feasible path",
        text="Bounded symbolic model checking: (b) for every feasible mask combination of each wrapper, row a of a 2-row call is the same "
        "term as the 1-row call and as the swapped call, for all real inputs; (a) getBH_level2's output shape and every element equal the "
        "reference 'source l alone at held path index m seen by pixel of sensor k', for all poses/pixels, on scenes with duplicates, "
        "class groups (incl. a group of one at the end), unequal path lengths, squeeze on/off, permuted source order.",
        note="Real arithmetic; unit input quaternions (SymRot model of scipy Rotation); scenes and shapes from a committed finite list; leaf "
        "kernels uninterpreted; exact row independence of the iterative elliptic loops (cel_iterv) and the trimesh grouping loop are not decided.",
        design="3/C06",
    ),
    "C08": dict(
        engine="E2",
        technique="symbolic execution of the real getBH_level2 with the fault schedule as solver booleans (each custom field-function "
        "invocation may raise / return None / return a wrong shape); the path driver enumerates all feasible schedules; state equality "
        "after return or exception is an SMT obligation over all real poses",
        text="Fault enumeration by symbolic execution: every exit point of getBH_level2 between in-place path tiling and reset is reached "
        "by forking on symbolic fault flags; on every path the position/orientation/pixel terms and the identity of parent, children, "
        "style, excitation and field_func of every involved object are proved unchanged, and a second call is proved term-identical. "
        "Objects of every registered class (left-handed Tetrahedron, unchecked TriangularMesh) through src.getX with symbolic parameters / pose / "
        "observer: every entry of the object's __dict__ and the caller's observer array are unchanged on every feasible path (plus a concrete "
        "trace with 1 / 3 observers, 2-step path and rejected calls).",
        note="Scenes from a committed list (<=3 sources incl. a collection and a class group, 1-2 sensors, path lengths 1..3); local field "
        "functions uninterpreted; SymRot quaternion model; dataframe output and style contents not modelled.",
        design="3/C08",
        category="fault_enumeration",
    ),
    "C03": dict(
        engine="E2",
        technique="symbolic execution of the real getBH_level2 / getBH_level1 and of the real rotate()/move() (apply_rotation, apply_move, "
        "path_padding) with unit-quaternion rotations over z3 terms; covariance discharged per element as QF_NRA obligations after "
        "congruence-guided merging of the uninterpreted local-field applications",
        text="Bounded symbolic model checking: for every local field function (uninterpreted), all real source pose paths, all unit "
        "quaternions q0 and translations t0, moving the sources through the real API and the observers by the same motion rotates "
        "every output element by q0. Scenes: static, path 3, unequal path lengths (tiling), a class group, a collection.",
        note="Real arithmetic, unit input quaternions (SymRot model of scipy Rotation), <=2 top-level sources, path lengths <=3, <=2 observers.",
        design="3/C03",
    ),
    "C04": dict(
        engine="E2",
        technique="symbolic execution of the real getBH_level2 (observer formatting, unrotated/static/rotating back-rotation paths selected by "
        "== on symbolic quaternion components = solver-decided forks, handedness, pixel aggregation) over z3 terms; each element compared "
        "with the reference q_k^-1 Field(q_k pix + p_k) as an SMT obligation",
        text="Bounded symbolic model checking: all feasible combinations of the three back-rotation code paths are enumerated by the path "
        "driver (coverage of each is asserted, else the check reports itself vacuous); on each, every output element equals the reference "
        "for all real sensor poses, pixel offsets and source poses; left-handed sensors negate x only; pixel_agg mean/sum/min/max equal "
        "the reduction over exactly that sensor's pixels, also for mixed pixel shapes.",
        note="Real arithmetic, unit quaternions; 1-3 sensors, pixel layouts from a fixed list, path lengths <=3; median/std style reductions not decided.",
        design="3/C04",
    ),
    "C05": dict(
        engine="E2",
        technique="symbolic execution of the real getBH_level2 (source flattening, collection slice summation, sumup) with uninterpreted "
        "per-leaf fields, and of the real BHJM_* wrappers with the excitation l*J1+J2 vs J1, J2, over z3 terms; sums and linearity "
        "discharged as SMT obligations per feasible path",
        text="Bounded symbolic model checking: (a) for source lists mixing bare sources, collections of different sizes, nesting and an "
        "object reachable twice, each entry equals the sum of its leaves' fields and sumup the sum of entries, for all poses; (b) "
        "B and H of Cuboid, Sphere, Triangle, Tetrahedron, Dipole, Circle, Polyline are linear in the excitation for all reals on "
        "every mask path (zero-excitation special cases included); Cylinder is positively homogeneous.",
        note="Real arithmetic; committed scene list (<=4 leaves, nesting depth 2); tetrahedron/triangle vertices and polyline endpoints fixed "
        "rationals; atan2 homogeneity lemma instances for the Cylinder; CylinderSegment and TriangularMesh linearity not decided.",
        design="3/C05",
    ),
    "C07": dict(
        engine="E2",
        technique="symbolic execution of the real top-level functions, source/sensor/collection methods, the functional interface "
        "(getBH_dict_level2: rank table, ragged detection, tiling) and the class level-0 functions over z3 terms; results compared term by "
        "term per feasible path as SMT obligations; call forms that raise are replayed concretely",
        text="Bounded symbolic model checking: for every registered source class and X in B,H,J,M, seven call forms of one symbolic "
        "configuration (pose, dimensions, excitation, observer symbolic) return identical terms on every feasible mask path; the functional "
        "interface is exercised with a single parameter set and with n=2 per-instance arrays; a documented call form that raises where the "
        "object interface succeeds is a violation (this is how wrong rank-table entries were found and fixed).",
        note="Real arithmetic; leaf kernels uninterpreted; vertices/meshes from fixed lists; rational fixed rotation for Cylinder, "
        "CylinderSegment, Circle, Polyline; dataframe output not decided; CustomSource has no functional interface.",
        design="3/C07",
    ),
    "C09": dict(
        engine="E1+E2",
        technique="CrossHair (z3) on the real path_padding_param / check_start_type over unbounded integers against a reference model, with a "
        "reachability twin; SymNum symbolic execution of the real move / rotate / rotate_from_* / position= / orientation= / reset_path "
        "through the real validators and np.pad with symbolic path contents, each new path entry compared with the documented rule as "
        "an SMT obligation",
        text="Bounded symbolic model checking, one inductive step from an arbitrary state: the integer padding arithmetic is confirmed "
        "over ALL integers by CrossHair; for every (old length N<=3/4, input form, start in [-5,5]/[-7,7] and 'auto', anchor kind) the "
        "resulting path equals the reference (which old entry each new entry derives from, left composition, rotation about the anchor) "
        "for all real contents; all rotate_from_* forms equal rotate() with the equivalent rotation; setters pad/end-slice the other path; "
        "rejected calls raise the input error and leave the state term-identical.",
        note="Real arithmetic, unit quaternions, rotations compared up to quaternion sign; SciPy's from_rotvec/euler/matrix/mrp conversions are "
        "uninterpreted (compiled code); path lengths beyond the bound are outside the claim; anchors incl. the object's own position view "
        "(aliasing behind dtype tests is seen by the concrete trace only).",
        design="3/C09",
    ),
    "C10": dict(
        engine="E2",
        technique="symbolic execution of the real Collection move / rotate (parent-path anchor branch) / position= / orientation= / reset_path over z3 "
        "terms with unit-quaternion rotations; relative poses q_C^-1(p-p_C), q_C^-1 q of every descendant compared before/after as QF_NRA obligations",
        text="Bounded symbolic model checking, one inductive step from an arbitrary state: for trees of depth <=2 whose members share the "
        "collection's path length, every operation on the root or an inner collection keeps each descendant's pose in the collection "
        "frame at every new path index (compared with the old index it derives from), for all real poses and arguments; operating on a "
        "child alone leaves all other objects term-identical. Anchors include the .position array of the rotated collection itself / of its first "
        "child (aliasing). Every scenario is also run once with committed pseudo-random doubles through the unpatched library (model validation).",
        note="Real arithmetic, unit quaternions, rotations up to quaternion sign; N<=2 (quick) / 3 (thorough); start values and input lengths from stated lists; one operation per case, plus two-step histories "
        "(child.position = coll.position, then an operation on the collection) and anchors that are views of the operated paths - the aliasing these "
        "exercise sits behind dtype tests and is seen by the concrete model-validation trace, not by the solver.",
        design="3/C10",
    ),
    "C11": dict(
        engine="E1",
        technique="CrossHair (z3) symbolic execution of the real add / remove / parent= / children= / sources= / sensors= / collections= / + / copy "
        "from an arbitrary valid forest chosen by symbolic integers (inductive step), invariant checked after return or exception; reachability twins",
        text="Bounded symbolic model checking of the tree invariant (single parent, parent/children agreement with multiplicity one, acyclic, typed "
        "views and *_all flattenings): every condition is 'Confirmed over all paths' by CrossHair for all valid pre-states over the universe and "
        "all argument/flag combinations, including argument lists rejected part-way.",
        note="Universe of 4 (quick) / 5 (thorough) concrete objects, <=2 arguments per call, plus (both tiers) a depth-3 universe T>M>L + Sensor with "
        "one-argument operations and copy(**rejected kwargs); validity of the pre-state is the invariant itself.",
        design="3/C11",
    ),
    "C17": dict(
        engine="E1+E2",
        technique="CrossHair (z3) on the real check_array_shape under the configuration captured from every real setter, for all shapes of rank 0..4 / "
        "dims 0..6 against the documented format; SymNum symbolic execution of the real geometry setters with symbolic vectors: accept/reject are "
        "solver-decided paths compared with the documented validity predicate; identity/term checks for atomicity and faithful storage",
        text="Bounded symbolic model checking: shape acceptance of 12 public array attributes is Confirmed over all shapes in the bound; the "
        "numeric rules (positive sizes, 0<=r1<r2, h>0, phi1<phi2<=phi1+360) are decided for all reals; a rejected assignment leaves the "
        "attribute the identical object, an accepted one stores a new array with identical terms; None is accepted where documented. "
        "Counterexamples are replayed through getB to show the later internal failure.",
        note="Shapes: rank<=4, dims<=6; type grammar beyond shapes/None (strings, ragged/non-numeric sequences) is decided inside np.array (compiled) and "
        "not modelled; scalar attributes only through CrossHair-free concrete rules; TriangularMesh vertices/faces validation not covered here.",
        design="3/C17",
    ),
    "C15": dict(
        engine="E2",
        technique="symbolic execution of the real BHJM_* wrappers and kernels over z3 terms that carry a definedness formula (division by a "
        "possibly-zero term, log<=0, sqrt<0, leaf called outside its domain), selected through np.where / mask assignment like a NaN; "
        "per feasible path: precondition and not documented-singular implies defined, as an SMT obligation",
        text="Bounded symbolic model checking: on every feasible mask path of every wrapper (Cuboid, Cylinder, CylinderSegment incl. the "
        "full-angle routing, Sphere, Tetrahedron, TriangularMesh, Triangle, Circle, Polyline, Dipole) all B and H components are defined for "
        "ALL real inputs of the path - faces, edges, corners, axis, wire, zero excitation are points the solver is free to pick; a "
        "reachability twin (bare cuboid kernel without the wrapper masks) must be flagged undefined. The straight-line part of the vectorised "
        "elliptic routine celv (case split p<=0 / p>0, set-up before the convergence loop) is defined for kc != 0 and all real p, c, s.",
        note="Real arithmetic (no overflow/underflow/cancellation); iterative elliptic kernels and the cylinder-segment case evaluators are cut with "
        "their argument preconditions as obligations; termination of the elliptic loops and the inside of the triangle kernel are not decided.",
        design="3/C15",
    ),
    "C12": dict(
        engine="E2",
        technique="symbolic execution of every real wrapper at X and at s*X inside one path (s symbolic in [1e-9,1e9], or from a list of powers of "
        "ten for three heavy wrappers in the quick tier); every evaluated branch condition is logged by source site and the solver is asked "
        "for an input on which the two logs differ; exact scaling laws of the algebraic kernels as SMT obligations",
        text="Bounded symbolic model checking of the piece structure: for all real inputs the masks / branch decisions of each wrapper are the "
        "same at X and at s*X (this is where absolute tolerances hide and needs no transcendental reasoning), with atan2 homogeneity lemma "
        "instances; Dipole ~ s^-3, Sphere ~ s^0, Polyline ~ s^-1 are proved for the values. Divergences are replayed in doubles at both "
        "scales and reported only if the outputs differ by more than 1e-6 relative.",
        note="Real arithmetic; known finding: CylinderSegment's absolute tolerances (close() atol, 1e-14 slabs) - recorded, any other scale dependence "
        "of that wrapper is still reported; the triangle kernel's switch is decided on a stated sub-domain (near an edge extension) and attempted on "
        "the full domain; value laws of log/atan2/elliptic kernels and TriangularMesh validation (see C16) are not decided here.",
        design="3/C12",
    ),
    "C16": dict(
        engine="E2",
        technique="symbolic execution of the real fix_trimesh_orientation / get_inwards_mask / is_facet_inwards / mask_inside_trimesh / "
        "lines_end_in_trimesh on meshes V = s*V0 + t with symbolic size s in [1e-9,1e9] and placement t; the returned face list is concrete per "
        "path and checked exactly; the solver decides which paths (sizes/placements) are feasible; get_intersecting_triangles / "
        "segments_intersect_facets on two-part meshes with a symbolic interpenetration depth d (scipy KDTree replaced by a stub that implements "
        "query_ball_point by its definition); get_open_edges / get_disconnected_faces_subsets on faces whose vertex numbers are symbolic pairwise "
        "distinct terms (every sort / unique / set-membership comparison is a solver-decided branch)",
        text="Bounded symbolic model checking: for rational base meshes (tetrahedron, sliver, prism, cube, two disjoint tetrahedra) under committed "
        "face orders and flip subsets, every feasible path of the reorientation returns only outward faces for ALL sizes and placements - exactly "
        "the fixed tolerances named in the property (they were absolute and inverted all faces of small meshes: found, reproduced, fixed). "
        "Self-intersection: for a spike pushed through a face and for a shifted copy standing on the same plane, every feasible path reports an "
        "intersection iff the geometric truth in d holds, for B-first / A-first / interleaved face orders (found, reproduced, fixed: crossings "
        "exactly through a triangle edge were missed). Open / disconnected: for 10 committed topologies (closed, faces deleted, dangling fin, two "
        "parts, two parts sharing a vertex, strips listed so that region growing needs several sweeps) every feasible order of the symbolic vertex "
        "numbers returns exactly the boundary edges and the vertex-connected parts of a reference written in the harness.",
        note="Real arithmetic (float32 cast = identity); open / disconnected only for the committed topologies and face orders, at most 4 (quick) / 5 "
        "vertex numbers free in the order; the class-level status flags (check_open / check_disconnected caching) by a concrete trace; face orders / flip subsets / two-part families from a stated finite list; touching "
        "configurations excluded by 1e-5 bands; paths whose feasibility the solver cannot decide are explored anyway and listed as inconclusive "
        "if they return inward faces.",
        design="3/C16",
    ),
    "C13": dict(
        engine="E2",
        technique="symbolic execution of the real Sphere/Dipole wrappers, BHJM_cylinder_segment_internal vs BHJM_magnet_cylinder, "
        "BHJM_magnet_tetrahedron (check_chirality, sheet construction observed by a spy on the triangle kernel) and BHJM_magnet_trimesh over z3 "
        "terms; identities discharged per feasible path as SMT obligations",
        text="Bounded symbolic model checking of the algebraically decidable representation identities, for all real inputs: Sphere outside == "
        "Dipole(M*V); full-angle CylinderSegment == Cylinder (minus the inner cylinder iff r1>0), term-identical; the four sheets a Tetrahedron "
        "hands to the triangle kernel are its four faces, each outward, for both chiralities of fully symbolic vertices, and H is their sum; "
        "TriangularMesh H == sum over faces for equal and ragged face counts, B - mu0 H in {0, J}.",
        note="Leaf kernels uninterpreted. NOT decided (stated): Cuboid = mesh = tetrahedra, Cylinder = sum of segments, cut-plane partitions, "
        "Polyline -> Circle (different transcendental closed forms / limits), and the mesh converters (np.unique / ConvexHull).",
        design="3/C13",
    ),
    "C01": dict(
        engine="E2",
        technique="symbolic execution of the real Dipole / Sphere / Polyline / on-axis Circle kernels and of the Cuboid fold (quadrant sign tables) "
        "over z3 terms; each compared with an independently written closed form or with the mirror covariance of a pseudo-vector field as an "
        "SMT obligation per feasible path",
        text="Bounded symbolic model checking of the algebraically decidable anchors of C01, for all real inputs: Dipole == point-dipole "
        "formula, Sphere == 2/3 J inside / dipole outside, on-axis Circle == textbook formula, on-line Polyline points == 0, Cuboid B is "
        "mirror-covariant under the x, y, z reflections on every feasible fold path (decides every entry of the sign tables), and the Cuboid "
        "closed form is bypassed (B = H = 0) only on the documented special set, the edges of the body. The straight "
        "segment vs. the cross-product Biot-Savart form is attempted for six rational segments: proved on some paths, `unknown` on the others "
        "(listed); a wrong kernel is still found there by the concrete screening of candidate models and replay.",
        note="PARTLY APPLICABLE: the transcendental closed forms (Cuboid, Cylinder, CylinderSegment, Triangle family, off-axis Circle) vs. the "
        "defining integrals are NOT decided - no SMT theory for them; numerical accuracy in doubles is not decided; observers at relative "
        "distance >= 1e-3 from the wire for the segment obligation.",
        design="3/C01",
    ),
    "C20": dict(
        engine="E1",
        technique="CrossHair (z3) symbolic execution of the real update_nested_dict / magic_to_dict / linearize_dict / MagicProperties.update / get_style with "
        "integer selectors choosing keys, values, notation and which of the sources of a leaf are set; compared with the documented semantics",
        text="Bounded symbolic model checking of the dictionary/precedence mechanism: update semantics (last wins, same_keys_only, replace_None_only, "
        "input not modified), magic<->nested<->flat round trips, equivalence of the three notations, last assignment wins, leaf precedence "
        "show-kwarg > object > family default / base default for three representative numeric leaves, and that resolving a style changes neither "
        "the object's style nor the defaults; out-of-range values are rejected; a leaf in both families of a Triangle resolves object > triangle > "
        "magnet; the resolved style of a show() call is installed only while traces are built (also when that raises); for committed lists of "
        "11 default leaves and 6 magnet-style leaves (incl. magnetization.arrow.size with its deprecated alias): reset() restores the leaf and "
        "leaves the others alone, the second of two assignments in any two notations wins, a value set on one object shows on no other object "
        "and not in the defaults, copies are independent (found, reproduced, fixed: the alias undid arrow.size updates and reset).",
        note="PARTLY APPLICABLE: <=3 keys from a 4-name alphabet, depth <=3, value lists of 2-4 entries chosen by symbolic selectors; the sweep over all "
        "several hundred leaves/families and the colour/linestyle validators are NOT decided. Conditions CrossHair cannot finish within the "
        "per-condition budget are listed as inconclusive.",
        design="3/C20",
    ),
    "C19": dict(
        engine="E1+E2",
        technique="symbolic execution of the real place_and_orient_model3d and of the local model builders (make_Cuboid / Prism / Ellipsoid / "
        "CylinderSegment / Tetrahedron, make_Polyline / make_Circle) over z3 terms with symbolic dimensions, pose, scale and length factor; "
        "on-surface and full-extent conditions as SMT obligations; CrossHair on get_rot_pos_from_path (which path indices are drawn: clamped to the last pose), "
        "style_temp_edit (own style restored whether the drawing returns or raises) and process_animation_kwargs (global animation defaults untouched)",
        text="Bounded symbolic model checking of the geometric core of show(): for all real dimensions and poses every drawn vertex equals "
        "(q*v*scale + p)*length_factor, lies on the surface of the body it depicts (corner of the box, hull circle and base planes, ellipsoid "
        "equation, inner/outer radius at z=+-h/2, the given tetrahedron vertices) and the full extent is attained; current lines pass through "
        "the conductor's points.",
        note="PARTLY APPLICABLE: discretisation parameters and section angles concrete; get_generic_traces3D, the plotly / matplotlib back ends, "
        "glyphs, colouring and the axis unit are NOT decided; 'displaying never modifies' is decided for the style swap and the animation "
        "defaults only.",
        design="3/C19",
    ),
}

NOT_APPLICABLE = {
    "C14": "closed-surface flux / closed-loop circulation are integrals of transcendental fields: no finite SMT encoding; quadrature would be sampling",
    "C18": "copy independence is heap aliasing through C-level deepcopy of NumPy/SciPy objects: no symbolic input dimension, every case is one concrete run",
}

PENDING = {}  # property -> reason while its check is not yet built


def main():
    props = [json.loads(l)["id"] for l in open(os.path.join(ROOT, "properties.jsonl"))]
    checks = []
    for pid in props:
        if pid not in CHECKS:
            continue
        c = CHECKS[pid]
        checks.append(
            {
                "property_id": pid,
                "quick_cmd": f"./vf check {pid} --tier quick",
                "thorough_cmd": f"./vf check {pid} --tier thorough",
                "evidence_file": f"evidence/{pid}.json",
                "replay_cmd_template": "./vf replay {path}",
                "engine": c["engine"],
                "level_claimed": {"category": c.get("category", "model_checking"), "text": c["text"], "design_ref": c["design"]},
                "level_note": c["note"],
                "technique": c["technique"],
            }
        )
    na = []
    for pid in props:
        if pid in CHECKS:
            continue
        reason = NOT_APPLICABLE.get(pid) or PENDING.get(pid) or "check not built yet in this round (solver-based harness planned in DESIGN.md)"
        na.append({"property_id": pid, "reason": reason})
    man = {
        "version": 1,
        "setup_cmd": "./vf setup",
        "hooks": {
            "guard": "MAGPYLIB_VERIF",
            "enable": "no source hooks: all instrumentation is monkey-patching inside the checking process (module-global numpy / Rotation proxies); "
            "checks import magpylib from /repo's working tree at run time",
            "baseline_off_cmd": "cd /repo && /venv/bin/python /verif/tools/baseline_check.py",
            "source_commits": [],
            "add_only": True,
        },
        "engines": [
            {"name": "E2", "path": "symnum/", "kind_free_text": E2, "serves_properties": [p for p in props if CHECKS.get(p, {}).get("engine", "").startswith("E2") or "E2" in CHECKS.get(p, {}).get("engine", "")]},
            {"name": "E1", "path": "harness/ch_*.py", "kind_free_text": E1, "serves_properties": [p for p in props if "E1" in CHECKS.get(p, {}).get("engine", "")]},
        ],
        "checks": checks,
        "not_applicable": na,
        "notes": "All checks are solver-based (z3 via SymNum or CrossHair) on the real code imported from /repo; see DESIGN.md. "
        "Exit codes: 0 held / 1 VIOLATION / 3 harness error. Known findings: known_findings.json.",
    }
    with open(os.path.join(ROOT, "MANIFEST.json"), "w") as f:
        json.dump(man, f, indent=1)
    print("MANIFEST.json written:", len(checks), "checks,", len(na), "not_applicable")


if __name__ == "__main__":
    main()
