"""run the repository's baseline suite (hooks guard OFF) and compare with /root/.vp/BASELINE.json stable_pass"""
import json, os, subprocess, sys, tempfile, xml.etree.ElementTree as ET
base = json.load(open("/root/.vp/BASELINE.json"))
out = tempfile.mktemp(suffix=".xml", dir="/tmp")
env = dict(os.environ); env.pop("MAGPYLIB_VERIF", None)
cmd = base["cmd"].replace("<file>", out)
repo = os.environ.get("VF_REPO", "/repo")
if repo != "/repo":
    cmd = cmd.replace("cd /repo", f"cd {repo}")
    env["PYTHONPATH"] = repo
r = subprocess.run(cmd, shell=True, env=env, capture_output=True, text=True)
passed = set()
for tc in ET.parse(out).getroot().iter("testcase"):
    if not any(ch.tag in ("failure", "error", "skipped") for ch in tc):
        passed.add(f"{tc.get('classname')}::{tc.get('name')}")
os.remove(out)
missing = [t for t in base["stable_pass"] if t not in passed]
print(f"baseline: {len(passed)} passed, stable_pass={len(base['stable_pass'])}, missing={len(missing)}")
for m in missing[:20]: print("  MISSING", m)
sys.exit(1 if missing else 0)
