"""print a python source file without docstrings/comments (reading aid)"""
import sys,ast
src=open(sys.argv[1]).read()
t=ast.parse(src)
for n in ast.walk(t):
    if isinstance(n,(ast.FunctionDef,ast.Module,ast.ClassDef)) and n.body and isinstance(n.body[0],ast.Expr) and isinstance(getattr(n.body[0],'value',None),ast.Constant) and isinstance(n.body[0].value.value,str):
        n.body=n.body[1:] or [ast.Pass()]
out=ast.unparse(t)
if len(sys.argv)>2:
    import re
    keep=False; res=[]
    names=sys.argv[2:]
    for line in out.split("\n"):
        m=re.match(r"(def|class) (\w+)", line)
        if m: keep = m.group(2) in names
        elif line and not line[0].isspace(): keep=False
        if keep: res.append(line)
    out="\n".join(res)
print(out)
