"""Table of the level-0 field wrappers (BHJM_*) used by several properties: how to build symbolic rows, the public
preconditions (what the object setters enforce), the leaf cuts, and how to call them with floats for replay."""
import importlib

import numpy as np
import z3

from symnum import CTX, S, SymArray, install, oarr, symarr, toz, ufcall
from symnum.install import elementwise_cut, row_kernel_cut

F = "magpylib._src.fields."

# (module, attribute, kind, argnames)  kind: elementwise | row
CUTS = {
    "cel": (F + "field_BH_cylinder", "cel", "elementwise", None),
    "ellipe": (F + "field_BH_cylinder", "ellipe", "elementwise", None),
    "ellipk": (F + "field_BH_cylinder", "ellipk", "elementwise", None),
    "cel_iter": (F + "field_BH_circle", "cel_iter", "elementwise", None),
    "segH": (F + "field_BH_cylinder_segment", "magnet_cylinder_segment_Hfield", "row", ["observers", "dimensions", "magnetizations"]),
    "triB": (F + "field_BH_triangle", "triangle_Bfield", "row", ["observers", "vertices", "polarizations"]),
}


def _inside_trimesh_cut(orig):
    """mask_inside_trimesh(points (n,3), faces (nf,3,3)) -> one uninterpreted predicate per row"""
    from symnum.core import ufpred
    from symnum.arr import has_sym

    def conc(*a):
        pts = np.array(a[:3], dtype=float).reshape(1, 3)
        faces = np.array(a[3:], dtype=float).reshape(-1, 3, 3)
        return bool(orig(pts, faces)[0])

    CTX.concrete_funcs["insideTM"] = conc

    def stub(points, faces):
        if not (has_sym(points) or has_sym(faces)):
            return orig(points, faces)
        pts = oarr(points)
        fl = list(oarr(faces).ravel())
        out = np.empty(len(pts), dtype=object)
        for i in range(len(pts)):
            out[i] = ufpred("insideTM", list(pts[i]) + fl)
        return out.view(SymArray)

    stub.__name__ = "cut_insideTM"
    return stub


# argument preconditions of the abstracted leaves (their bodies are cut, the call sites are not):
#   cel(kc,p,c,s): cel0 raises RuntimeError("FAIL") for kc == 0 ; ellipk(m) is +inf at m == 1 ; ellipe(m) is nan for m > 1
DOMAINS = {
    "cel": lambda kc, p, c, s: kc != 0,
    "ellipk": lambda m: m < 1,
    "ellipe": lambda m: m <= 1,
}


def _segH_domain(row):
    """magnet_cylinder_segment_Hfield(observers=(r,phi,z), dimensions=(r1,r2,phi1,phi2,z1,z2)): the case formulas are singular
    exactly on the 8 corners of the segment (r in {r1,r2}, z in {z1,z2}, phi = phi1 or phi2 modulo 2 pi); the wrapper must mask them"""
    r, phi, zz = [toz(x) for x in row["observers"]]
    r1, r2, p1, p2, z1, z2 = [toz(x) for x in row["dimensions"]]
    two_pi = toz(float(2 * np.pi))
    on_r = z3.Or(r == r1, r == r2)
    on_z = z3.Or(zz == z1, zz == z2)
    on_phi = z3.Or(*[phi == pj + k * two_pi for pj in (p1, p2) for k in (-1, 0, 1)])
    return z3.Not(z3.And(on_r, on_z, on_phi))


ROW_DOMAINS = {"segH": _segH_domain}


def apply_cuts(names):
    for nm in names:
        if nm == "insideTM":
            modname, attr = F + "field_BH_triangularmesh", "mask_inside_trimesh"
            orig = install.original(modname, attr)
            if not getattr(orig, "__name__", "").startswith("cut_"):
                install.patch(modname, attr, _inside_trimesh_cut(orig))
            continue
        modname, attr, kind, argnames = CUTS[nm]
        orig = install.original(modname, attr)
        if getattr(orig, "__name__", "").startswith("cut_"):
            continue
        if kind == "elementwise":
            stub = elementwise_cut(nm, orig, dom=DOMAINS.get(nm))
        else:
            stub = row_kernel_cut(nm, orig, argnames, dom=ROW_DOMAINS.get(nm))
        install.patch(modname, attr, stub)


class W:
    def __init__(self, name, module, func, args, pre, cuts=(), magnet=False, excitation=None, extra_kw=None, lengths=()):
        self.name = name
        self.module = module
        self.func = func
        self.args = args  # list of (argname, row shape)
        self.pre = pre  # function(dict of arrays, row) -> list of z3 formulas
        self.cuts = cuts
        self.magnet = magnet
        self.excitation = excitation
        self.extra_kw = extra_kw or {}
        self.lengths = lengths  # names of args that are lengths (scale with the unit)

    def fn(self):
        return getattr(importlib.import_module(self.module), self.func)

    def qual(self):
        return f"{self.module}:{self.func}"

    def sym_args(self, n, prefix=""):
        return {a: symarr(prefix + a, (n,) + tuple(shp)) for a, shp in self.args}

    def pre_all(self, A):
        n = len(next(iter(A.values())))
        out = []
        for i in range(n):
            out += self.pre(A, i)
        return out

    def inputs(self, A):
        out = []
        for a in A.values():
            out += list(np.asarray(a, dtype=object).ravel())
        return out

    def env_to_float_args(self, env, A):
        out = {}
        for k, a in A.items():
            f = np.zeros(a.shape)
            for idx in np.ndindex(*a.shape):
                t = toz(a[idx])
                if z3.is_rational_value(t):
                    f[idx] = float(t.numerator_as_long()) / float(t.denominator_as_long())
                else:
                    f[idx] = env.get(str(t), 0.0) or 0.0
            out[k] = f
        return out

    def call_float(self, field, fargs, **kw):
        """plain library call (must be executed with proxies uninstalled)"""
        fn = self.fn()
        args = {k: np.array(v, dtype=float) for k, v in fargs.items()}
        return fn(field=field, **args, **{**self.extra_kw, **kw})


def z(a, i, *j):
    return toz(a[(i,) + j])


def _pre_cuboid(A, i):
    return [z(A["dimension"], i, k) > 0 for k in range(3)]


def _pre_cyl(A, i):
    return [z(A["dimension"], i, k) > 0 for k in range(2)]


def _pre_sphere(A, i):
    return [z(A["diameter"], i) >= 0]  # the setter accepts 0 (forbid_negative only)


def _pre_seg(A, i):
    r1, r2, h, p1, p2 = [z(A["dimension"], i, k) for k in range(5)]
    return [r1 >= 0, r1 <= r2, r2 > 0, h > 0, p1 <= p2, p2 - p1 <= 360]  # what check_format_input_cylinder_segment accepts (equalities included)


def _pre_none(A, i):
    return []


def _pre_circle(A, i):
    return [z(A["diameter"], i) >= 0]


def _det3(a, b, c):
    return a[0] * (b[1] * c[2] - b[2] * c[1]) - a[1] * (b[0] * c[2] - b[2] * c[0]) + a[2] * (b[0] * c[1] - b[1] * c[0])


def _pre_tetra(A, i):
    v = [[z(A["vertices"], i, k, c) for c in range(3)] for k in range(4)]
    e = [[v[k][c] - v[0][c] for c in range(3)] for k in (1, 2, 3)]
    return [_det3(*e) != 0]


def _pre_tri(A, i):
    v = [[z(A["vertices"], i, k, c) for c in range(3)] for k in range(3)]
    a = [v[1][c] - v[0][c] for c in range(3)]
    b = [v[2][c] - v[0][c] for c in range(3)]
    n = [a[1] * b[2] - a[2] * b[1], a[2] * b[0] - a[0] * b[2], a[0] * b[1] - a[1] * b[0]]
    return [z3.Or(n[0] != 0, n[1] != 0, n[2] != 0)]


WRAPPERS = {
    "cuboid": W("cuboid", F + "field_BH_cuboid", "BHJM_magnet_cuboid", [("observers", (3,)), ("dimension", (3,)), ("polarization", (3,))],
                _pre_cuboid, magnet=True, excitation="polarization", lengths=("observers", "dimension")),
    "cylinder": W("cylinder", F + "field_BH_cylinder", "BHJM_magnet_cylinder", [("observers", (3,)), ("dimension", (2,)), ("polarization", (3,))],
                  _pre_cyl, cuts=("cel", "ellipe", "ellipk"), magnet=True, excitation="polarization", lengths=("observers", "dimension")),
    "sphere": W("sphere", F + "field_BH_sphere", "BHJM_magnet_sphere", [("observers", (3,)), ("diameter", ()), ("polarization", (3,))],
                _pre_sphere, magnet=True, excitation="polarization", lengths=("observers", "diameter")),
    "cylseg": W("cylseg", F + "field_BH_cylinder_segment", "BHJM_cylinder_segment", [("observers", (3,)), ("dimension", (5,)), ("polarization", (3,))],
                _pre_seg, cuts=("segH",), magnet=True, excitation="polarization", lengths=("observers",)),
    "cylseg_internal": W("cylseg_internal", F + "field_BH_cylinder_segment", "BHJM_cylinder_segment_internal",
                         [("observers", (3,)), ("dimension", (5,)), ("polarization", (3,))], _pre_seg,
                         cuts=("segH", "cel", "ellipe", "ellipk"), magnet=True, excitation="polarization", lengths=("observers",)),
    "tetra": W("tetra", F + "field_BH_tetrahedron", "BHJM_magnet_tetrahedron", [("observers", (3,)), ("vertices", (4, 3)), ("polarization", (3,))],
               _pre_tetra, cuts=("triB",), magnet=True, excitation="polarization", lengths=("observers", "vertices")),
    "trimesh": W("trimesh", F + "field_BH_triangularmesh", "BHJM_magnet_trimesh", [("observers", (3,)), ("mesh", (4, 3, 3)), ("polarization", (3,))],
                 _pre_none, cuts=("triB", "insideTM"), magnet=True, excitation="polarization", extra_kw={"in_out": "auto"}, lengths=("observers", "mesh")),
    "triangle": W("triangle", F + "field_BH_triangle", "BHJM_triangle", [("observers", (3,)), ("vertices", (3, 3)), ("polarization", (3,))],
                  _pre_tri, cuts=("triB",), excitation="polarization", lengths=("observers", "vertices")),
    "circle": W("circle", F + "field_BH_circle", "BHJM_circle", [("observers", (3,)), ("diameter", ()), ("current", ())],
                _pre_circle, cuts=("cel_iter",), excitation="current", lengths=("observers", "diameter")),
    "polyline": W("polyline", F + "field_BH_polyline", "BHJM_current_polyline",
                  [("observers", (3,)), ("segment_start", (3,)), ("segment_end", (3,)), ("current", ())], _pre_none,
                  excitation="current", lengths=("observers", "segment_start", "segment_end")),
    "dipole": W("dipole", F + "field_BH_dipole", "BHJM_dipole", [("observers", (3,)), ("moment", (3,))], _pre_none,
                excitation="moment", lengths=("observers",)),
}


def tetra_mesh(v, shift=(0, 0, 0), scale=1.0):
    """outward-oriented faces (4,3,3) of the tetrahedron with vertices v (positive chirality expected)"""
    v = (np.array(v, dtype=float) * scale) + np.array(shift, dtype=float)
    idx = [(0, 2, 1), (0, 1, 3), (1, 2, 3), (0, 3, 2)]
    return np.array([[v[i] for i in f] for f in idx])


UNIT_TETRA = [(0, 0, 0), (1, 0, 0), (0, 1, 0), (0, 0, 1)]
