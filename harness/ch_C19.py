"""C19 (E1 part): selection of the displayed path indices (CrossHair)."""
from . import chlib

PROPERTY = "C19"
FILE = "harness/chx_C19.py"
FUNCTIONS = ["magpylib._src.display.traces_utility:get_rot_pos_from_path", "magpylib._src.utility:style_temp_edit",
             "magpylib._src.display.traces_generic:process_animation_kwargs", "magpylib._src.defaults.defaults_classes:Animation (setters, update, copy, as_dict)",
             "magpylib._src.display.traces_generic:get_frames", "magpylib._src.display.traces_generic:extract_animation_properties", "magpylib._src.utility:get_unit_factor",
             "magpylib._src.display.traces_utility:get_objects_props_by_row_col", "magpylib._src.display.traces_utility:get_flatten_objects_properties_recursive"]
BOUNDS = ["get_rot_pos_from_path: path length 1..5, frame lists of 3 indices in 0..7, integer steps 1..6, True/False",
          "which objects get a graphic: universe T, M, L collections + Sensor + Dipole, parent(M) in {None,T}, parent(L) in {None,T,M}, the leaves anywhere (symbolic "
          "parent indices), show(X) for every X in one subplot and T in a second subplot",
          "animation frames: path length in {2,3,5,7,12}, maxframes in {2,3,4,50}, fps / time from the committed lists (symbolic selectors); "
          "unit factor: all 18 SI prefixes of the table plus d, c",
          "style_temp_edit: drawing succeeds / raises, copy on/off, with / without a temporary style, object with / without an own style (all symbolic booleans)",
          "process_animation_kwargs: animation_fps, animation_maxfps in {1,3,50}, animation_maxframes in {5,200}, animation_time in {2,60} chosen by "
          "symbolic selectors (CrossHair runs builtin setattr() untraced, so validator inputs cannot stay symbolic), slider symbolic bool, time given as "
          "animation=<number> or as animation_time"]
CUTS = ["get_frames: draw_frame (trace generation) is stubbed by a recorder, so frame selection / down-sampling / announcement are what is checked",
        "get_objects_props_by_row_col: get_style is stubbed by a constant style (style resolution is C20's subject)", "objects are stand-ins exposing _position / _orientation arrays (frames) or a _style attribute (style_temp_edit); the drawing inside the with-block is "
        "an arbitrary body that either returns or raises"]
ASSUMPTIONS = []
NOT_DECIDED = []


def cases(tier, seed):
    return chlib.make_cases(FILE, tier, timeouts=(90, 400))


def run_case(case, info):
    return chlib.run_case(case, dict(info, pid=PROPERTY), "harness.chx_C19")


def replay(spec):
    return chlib.replay_call(spec)
