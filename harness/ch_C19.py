"""C19 (E1 part): selection of the displayed path indices (CrossHair)."""
from . import chlib

PROPERTY = "C19"
FILE = "harness/chx_C19.py"
FUNCTIONS = ["magpylib._src.display.traces_utility:get_rot_pos_from_path"]
BOUNDS = ["get_rot_pos_from_path: path length 1..5, frame lists of 3 indices in 0..7, integer steps 1..6, True/False"]
CUTS = ["objects are stand-ins exposing _position / _orientation arrays"]
ASSUMPTIONS = []
NOT_DECIDED = []


def cases(tier, seed):
    return chlib.make_cases(FILE, tier, timeouts=(90, 400))


def run_case(case, info):
    return chlib.run_case(case, dict(info, pid=PROPERTY), "harness.chx_C19")


def replay(spec):
    return chlib.replay_call(spec)
