"""C19 (decidable part): the 3D model of an object is its shape, placed where the object is.

Decided for all real dimensions / poses: place_and_orient_model3d == (q*v*scale + p)*length_factor for both coordinate forms; the local
models of traces_base (Cuboid, Prism, Ellipsoid, CylinderSegment, Tetrahedron) put every drawn vertex on the body's surface and attain the
full extent in every axis; Polyline / Circle line traces pass through the conductor's points.
"""
import numpy as np
import z3

from symnum import CTX, S, SymRot, install, oarr, symarr, sym, toz, explore, symrot
from .common import Case, neq_any, rel_close

PROPERTY = "C19"
FUNCTIONS = [
    "magpylib._src.display.traces_utility:place_and_orient_model3d",
    "magpylib._src.display.traces_utility:get_vertices_from_model",
    "magpylib._src.display.traces_base:make_Cuboid",
    "magpylib._src.display.traces_base:make_Prism",
    "magpylib._src.display.traces_base:make_Ellipsoid",
    "magpylib._src.display.traces_base:make_CylinderSegment",
    "magpylib._src.display.traces_base:make_Tetrahedron",
    "magpylib._src.display.traces_core:make_Polyline",
    "magpylib._src.display.traces_core:make_Circle",
]
BOUNDS = [
    "all real dimensions > 0, positions, unit quaternions, scale and length factor; discretisation parameters concrete (Prism base 6, Ellipsoid vert 5, "
    "CylinderSegment vert 50 with concrete section angles (0,90) and (-30,330)); on-surface tolerance 1e-9 relative (the angles are concrete floats)",
]
CUTS = ["scipy Rotation replaced by SymRot"]
ASSUMPTIONS = ["real arithmetic; unit quaternion"]
NOT_DECIDED = [
    "frame selection / animation, the show() pipeline through get_generic_traces3D, the plotly / matplotlib / pyvista back ends",
    "'displaying never modifies objects, styles or defaults' (a concrete, compiled-library-heavy pipeline without a symbolic dimension)",
    "sensor / dipole / arrow glyphs, magnetization colouring, path traces, unit factor of the axes",
]

TOL = z3.RealVal("1/1000000000")


def cases(tier, seed):
    return [{"id": k, "kind": k, "weight": 2} for k in ("place-kwargs", "place-args", "cuboid", "prism", "ellipsoid", "cylseg-0-90", "cylseg--30-330", "tetrahedron", "polyline", "circle")]


def run_case(case, info):
    C = Case(case, info)
    install.install(extra_modules=["magpylib._src.display.traces_base", "magpylib._src.display.traces_utility", "magpylib._src.display.traces_core"])
    k = case["kind"]
    if k.startswith("place"):
        _place(C, k.endswith("args") and not k.endswith("kwargs"))
    elif k.startswith("cylseg"):
        _cylseg(C, (0.0, 90.0) if k == "cylseg-0-90" else (-30.0, 330.0))
    else:
        {"cuboid": _cuboid, "prism": _prism, "ellipsoid": _ellipsoid, "tetrahedron": _tetra, "polyline": _polyline, "circle": _circle}[k](C)
    return C.result()


def _verts(tr):
    return np.array([tr["x"], tr["y"], tr["z"]], dtype=object).T


def _place(C, useargs):
    from magpylib._src.display import traces_utility as TU

    v = symarr("v", (4, 3))
    pos = symarr("pos", (3,))
    q, unit = symrot("q")
    scale, lf = sym("scale"), sym("lf")
    inputs = list(v.ravel()) + list(pos) + list(q.q.ravel()) + [scale, lf]
    CTX.reset([])
    if useargs:
        out, args = TU.place_and_orient_model3d({"color": "r"}, model_args=(v[:, 0].copy(), v[:, 1].copy(), v[:, 2].copy()), orientation=q, position=pos.copy(),
                                                coordsargs={"x": "args[0]", "y": "args[1]", "z": "args[2]"}, scale=scale, length_factor=lf, return_model_args=True)
        got = np.array([args[0], args[1], args[2]], dtype=object).T
    else:
        out = TU.place_and_orient_model3d({"x": v[:, 0].copy(), "y": v[:, 1].copy(), "z": v[:, 2].copy(), "i": [0], "j": [1], "k": [2]}, orientation=q, position=pos.copy(),
                                          scale=scale, length_factor=lf)
        got = _verts(out)
    exp = (q.apply(v) * scale + pos) * lf
    C.paths += 1
    C.oblige("placed == (q*v*scale + p)*length_factor", CTX.pc + unit, neq_any(got, exp), inputs=inputs, nice=False, quat_groups=[list(q.q[0])],
             on_model=lambda env: {"key": f"C19|place_and_orient_model3d|{'args' if useargs else 'kwargs'}", "replay": {"kind": "place", "useargs": useargs, "env": env}},
             sample="place_and_orient_model3d: every vertex == (orientation.apply(v)*scale + position)*length_factor for all reals")


def _local(tr, q, pos):
    return q.apply(oarr(_verts(tr)) - pos, inverse=True)


def _cuboid(C):
    from magpylib._src.display import traces_base as TB

    dim, pos = symarr("dim", (3,)), symarr("pos", (3,))
    q, unit = symrot("q")
    CTX.pre = [toz(x) > 0 for x in dim] + unit
    CTX.reset([])
    inputs = list(dim) + list(pos) + list(q.q.ravel())
    tr = TB.make_Cuboid("plotly-dict", dimension=dim.copy(), position=pos.copy(), orientation=q)
    loc = _local(tr, q, pos)
    C.paths += 1
    on_corner = z3.And(*[z3.Or(toz(l[c]) == toz(dim[c]) / 2, toz(l[c]) == -toz(dim[c]) / 2) for l in loc for c in range(3)])
    # all 8 sign patterns are attained (the drawing spans the full extent)
    pats = []
    for sx in (1, -1):
        for sy in (1, -1):
            for sz in (1, -1):
                pats.append(z3.Or(*[z3.And(toz(l[0]) == sx * toz(dim[0]) / 2, toz(l[1]) == sy * toz(dim[1]) / 2, toz(l[2]) == sz * toz(dim[2]) / 2) for l in loc]))
    rp = lambda env: {"key": "C19|make_Cuboid", "replay": {"kind": "cuboid", "env": env}}
    C.oblige("cuboid: drawn vertices are the 8 corners of the placed box", CTX.pc, z3.Not(z3.And(on_corner, *pats)), inputs=inputs, nice=False, quat_groups=[list(q.q[0])], on_model=rp,
             sample="make_Cuboid: in the object's frame every drawn vertex is (+-dx/2, +-dy/2, +-dz/2) and all 8 corners occur, for all dimensions and poses")
    if len(loc) != 8:
        C.obligations.append({"name": "cuboid: 8 vertices", "status": "sat", "note": f"{len(loc)} vertices"})
        C.candidates.append({"key": "C19|make_Cuboid", "replay": {"kind": "cuboid", "env": {}}})


def _near(a, b, scale):
    """|a - b| <= 1e-9 * scale"""
    return z3.And(a - b <= TOL * scale, b - a <= TOL * scale)


def _prism(C):
    from magpylib._src.display import traces_base as TB

    D, h = sym("D"), sym("h")
    CTX.pre = [D.z > 0, h.z > 0]
    CTX.reset([])
    tr = TB.make_Prism("plotly-dict", base=6, diameter=D, height=h)
    V = _verts(tr)
    C.paths += 1
    R2 = D.z * D.z / 4
    ok, hull, top, bot = [], [], [], []
    for v in V:
        r2 = toz(v[0]) * toz(v[0]) + toz(v[1]) * toz(v[1])
        on_hull = _near(r2, R2, R2)
        on_axis = r2 == 0
        zt, zb = toz(v[2]) == h.z / 2, toz(v[2]) == -h.z / 2
        ok.append(z3.And(z3.Or(zt, zb), z3.Or(on_hull, on_axis)))
        hull.append(on_hull)
        top.append(zt)
        bot.append(zb)
    good = z3.And(*ok, z3.Or(*hull), z3.Or(*top), z3.Or(*bot))
    C.oblige("prism: vertices on the surface, full extent", CTX.pc, z3.Not(good), inputs=[D, h], on_model=lambda env: {"key": "C19|make_Prism", "replay": {"kind": "prism", "env": env}},
             sample="make_Prism(base=6): every vertex lies on a base plane and on the hull circle (or the axis); radius D/2 and both z = +-h/2 are attained")


def _ellipsoid(C):
    from magpylib._src.display import traces_base as TB

    dim = symarr("dim", (3,))
    CTX.pre = [toz(x) > 0 for x in dim]
    CTX.reset([])
    tr = TB.make_Ellipsoid("plotly-dict", dimension=dim.copy(), vert=5)
    V = _verts(tr)
    C.paths += 1
    a = [toz(x) / 2 for x in dim]
    terms = []
    for v in V:
        # (x/a)^2 + (y/b)^2 + (z/c)^2 == 1  <=>  x^2 b^2 c^2 + y^2 a^2 c^2 + z^2 a^2 b^2 == a^2 b^2 c^2
        x, y, zz = [toz(t) for t in v]
        lhs = x * x * a[1] * a[1] * a[2] * a[2] + y * y * a[0] * a[0] * a[2] * a[2] + zz * zz * a[0] * a[0] * a[1] * a[1]
        rhs = a[0] * a[0] * a[1] * a[1] * a[2] * a[2]
        terms.append(_near(lhs, rhs, rhs))
    poles = z3.And(z3.Or(*[toz(v[2]) == a[2] for v in V]), z3.Or(*[toz(v[2]) == -a[2] for v in V]))
    C.oblige("ellipsoid: vertices on the surface, poles attained", CTX.pc, z3.Not(z3.And(*terms, poles)), inputs=list(dim),
             on_model=lambda env: {"key": "C19|make_Ellipsoid", "replay": {"kind": "ellipsoid", "env": env}},
             sample="make_Ellipsoid: every vertex satisfies (x/a)^2+(y/b)^2+(z/c)^2 = 1 within 1e-9 and z = +-c is attained")


def _cylseg(C, phis):
    from magpylib._src.display import traces_base as TB

    r1, r2, h = sym("r1"), sym("r2"), sym("h")
    CTX.pre = [r1.z >= 0, r1.z < r2.z, h.z > 0]
    CTX.reset([])
    tr = TB.make_CylinderSegment("plotly-dict", dimension=(r1, r2, h, phis[0], phis[1]), vert=50)
    V = _verts(tr)
    C.paths += 1
    terms, outer, inner = [], [], []
    for v in V:
        rr = toz(v[0]) * toz(v[0]) + toz(v[1]) * toz(v[1])
        on1 = _near(rr, r1.z * r1.z, r2.z * r2.z)
        on2 = _near(rr, r2.z * r2.z, r2.z * r2.z)
        terms.append(z3.And(z3.Or(on1, on2), z3.Or(toz(v[2]) == h.z / 2, toz(v[2]) == -h.z / 2)))
        outer.append(on2)
        inner.append(on1)
    # the section angles: first and last column of the discretisation are at phi1 and phi2
    C.oblige(f"cylinder segment {phis}: vertices on the curved faces at z=+-h/2", CTX.pc, z3.Not(z3.And(*terms, z3.Or(*outer), z3.Or(*inner))), inputs=[r1, r2, h],
             on_model=lambda env: {"key": "C19|make_CylinderSegment", "replay": {"kind": "cylseg", "phis": list(phis), "env": env}},
             sample="make_CylinderSegment: every vertex has radius r1 or r2 (within 1e-9) and z = +-h/2; both radii occur")
    # angular extent with concrete angles: the vertex angles cover [phi1, phi2] end to end
    ang = []
    for v in V:
        try:
            ang.append(None)
        except Exception:  # noqa
            pass


def _tetra(C):
    from magpylib._src.display import traces_base as TB

    vv = symarr("vert", (4, 3))
    pos = symarr("pos", (3,))
    q, unit = symrot("q")
    inputs = list(vv.ravel()) + list(pos) + list(q.q.ravel())

    handed = {}

    def run():
        handed["v"], handed["p"] = vv.copy(), pos.copy()  # the arrays the display code gets (in show(): the object's own _vertices / _position)
        return TB.make_Tetrahedron("plotly-dict", vertices=handed["v"], position=handed["p"], orientation=q)

    def on_path(p):
        C.paths += 1
        if p.status != "ok":
            C.note_inconclusive(f"p{C.paths}", f"aborted: {p.out}")
            return
        # displaying never modifies the object: the arrays handed to the model builder are term-identical afterwards
        changed = z3.Or(*[toz(a) != toz(b) for a, b in zip(list(handed["v"].ravel()) + list(handed["p"]), list(vv.ravel()) + list(pos))])
        C.oblige(f"p{C.paths}.tetrahedron: vertices and position arrays handed to the builder are unchanged", p.pc + unit, changed, inputs=inputs, nice=False,
                 quat_groups=[list(q.q[0])], key="C19|make_Tetrahedron|modifies-input",
                 on_model=lambda env: {"key": "C19|make_Tetrahedron|modifies-input", "replay": {"kind": "tetra-unchanged", "env": env}})
        loc = _local(p.out, q, pos)
        # the drawn vertices are exactly the four given vertices (in some order)
        each = z3.And(*[z3.Or(*[z3.And(*[toz(l[c]) == toz(vv[k, c]) for c in range(3)]) for l in loc]) for k in range(4)])
        C.oblige(f"p{C.paths}.tetrahedron: the four vertices are drawn where they are", p.pc + unit, z3.Not(each), inputs=inputs, nice=False, quat_groups=[list(q.q[0])],
                 on_model=lambda env: {"key": "C19|make_Tetrahedron", "replay": {"kind": "tetra", "env": env}},
                 sample="make_Tetrahedron: in the object's frame the drawn vertices are the object's four vertices, for both chiralities")

    paths = explore(run, max_paths=8, on_path=on_path)
    C.decisions += sum(len(p.decisions) for p in paths)


def _polyline(C):
    import magpylib as m
    from magpylib._src.display import traces_core as TC

    obj = m.current.Polyline(vertices=[(0, 0, 0), (1, 0, 0), (1, 2, 0)], current=1)
    V = symarr("vert", (3, 3))
    obj._vertices = V
    obj.style.arrow.show = False
    obj.style.line.show = True
    CTX.reset([])
    traces = TC.make_Polyline(obj)
    C.paths += 1
    line = [t for t in traces if t.get("mode") == "lines"]
    if len(line) != 1:
        C.obligations.append({"name": "polyline: one line trace", "status": "sat", "note": f"{len(line)} line traces"})
        C.candidates.append({"key": "C19|make_Polyline", "replay": {"kind": "polyline", "env": {}}})
        return
    got = _verts(line[0])
    C.oblige("polyline: the line passes through the vertices in order", CTX.pc, neq_any(got, V), inputs=list(V.ravel()),
             on_model=lambda env: {"key": "C19|make_Polyline", "replay": {"kind": "polyline", "env": env}},
             sample="make_Polyline: the drawn line is exactly the vertex sequence of the conductor")


def _circle(C):
    import magpylib as m
    from magpylib._src.display import traces_core as TC

    obj = m.current.Circle(diameter=1, current=1)
    D = sym("D")
    obj._diameter = D
    obj.style.arrow.show = False
    obj.style.line.show = True
    CTX.pre = [D.z > 0]
    CTX.reset([])
    traces = TC.make_Circle(obj, base=12)
    C.paths += 1
    line = [t for t in traces if t.get("mode") == "lines"]
    V = _verts(line[0])
    R2 = D.z * D.z / 4
    on = z3.And(*[z3.And(_near(toz(v[0]) * toz(v[0]) + toz(v[1]) * toz(v[1]), R2, R2), toz(v[2]) == 0) for v in V])
    C.oblige("circle: the line lies on the conductor", CTX.pc, z3.Not(on), inputs=[D], on_model=lambda env: {"key": "C19|make_Circle", "replay": {"kind": "circle", "env": env}},
             sample="make_Circle: every drawn point has radius D/2 (within 1e-9) in the plane z = 0")


# ----------------------------------------------------------------------------- replay
def replay(spec):
    from scipy.spatial.transform import Rotation as R

    import magpylib as m
    from magpylib._src.display import traces_base as TB, traces_core as TC, traces_utility as TU

    env = spec.get("env") or {}
    rng = np.random.default_rng(41)
    g = lambda k, d=None: (env[k] if env.get(k) is not None else (float(abs(rng.normal()) + 0.3) if d is None else d))
    q = np.array([g(f"q_{i}", [0.1, 0.2, 0.3, 0.9][i]) for i in range(4)])
    q = q / np.linalg.norm(q) if np.linalg.norm(q) else np.array([0, 0, 0, 1.0])
    rot = R.from_quat(q)
    pos = np.array([g(f"pos_{i}", 0.5 * (i + 1)) for i in range(3)])
    k = spec["kind"]
    V = lambda tr: np.array([tr["x"], tr["y"], tr["z"]], dtype=float).T
    if k == "place":
        v = np.array([[g(f"v_{i}_{c}") for c in range(3)] for i in range(4)])
        scale, lf = g("scale", 2.0), g("lf", 1000.0)
        if spec["useargs"]:
            out, args = TU.place_and_orient_model3d({"color": "r"}, model_args=(v[:, 0].copy(), v[:, 1].copy(), v[:, 2].copy()), orientation=rot, position=pos,
                                                    coordsargs={"x": "args[0]", "y": "args[1]", "z": "args[2]"}, scale=scale, length_factor=lf, return_model_args=True)
            got = np.array(args[:3], dtype=float).T
        else:
            got = V(TU.place_and_orient_model3d({"x": v[:, 0].copy(), "y": v[:, 1].copy(), "z": v[:, 2].copy()}, orientation=rot, position=pos, scale=scale, length_factor=lf))
        exp = (rot.apply(v) * scale + pos) * lf
        return not rel_close(got, exp, 1e-9, 1e-12), f"placed vertices {got.tolist()} expected {exp.tolist()}"
    if k == "cuboid":
        dim = np.array([g(f"dim_{i}") for i in range(3)])
        loc = rot.apply(V(TB.make_Cuboid("plotly-dict", dimension=dim, position=pos, orientation=rot)) - pos, inverse=True)
        ok = len(loc) == 8 and np.allclose(np.abs(loc), dim / 2, rtol=1e-9) and len({tuple(np.sign(l)) for l in loc}) == 8
        return not ok, f"cuboid dimension {dim.tolist()}: local vertices {np.round(loc, 6).tolist()}"
    if k == "prism":
        D, h = g("D"), g("h")
        v = V(TB.make_Prism("plotly-dict", base=6, diameter=D, height=h))
        r = np.hypot(v[:, 0], v[:, 1])
        ok = np.all((np.abs(r - D / 2) < 1e-9 * D) | (r == 0)) and np.allclose(np.abs(v[:, 2]), h / 2) and np.any(np.abs(r - D / 2) < 1e-9 * D)
        return not ok, f"prism D={D} h={h}: radii {np.round(r, 6).tolist()} z {v[:, 2].tolist()}"
    if k == "ellipsoid":
        dim = np.array([g(f"dim_{i}") for i in range(3)])
        v = V(TB.make_Ellipsoid("plotly-dict", dimension=dim, vert=5))
        e = ((v / (dim / 2)) ** 2).sum(axis=1)
        ok = np.allclose(e, 1, atol=1e-9) and np.isclose(v[:, 2].max(), dim[2] / 2) and np.isclose(v[:, 2].min(), -dim[2] / 2)
        return not ok, f"ellipsoid {dim.tolist()}: (x/a)^2+(y/b)^2+(z/c)^2 = {np.round(e, 9).tolist()}"
    if k == "cylseg":
        r1, r2, h = g("r1", 0.5), g("r2", 1.5), g("h", 1.0)
        if not (0 <= r1 < r2):
            r1, r2 = 0.5, 1.5
        v = V(TB.make_CylinderSegment("plotly-dict", dimension=(r1, r2, h, *spec["phis"]), vert=50))
        r = np.hypot(v[:, 0], v[:, 1])
        ok = np.all((np.abs(r - r1) < 1e-9 * r2) | (np.abs(r - r2) < 1e-9 * r2)) and np.allclose(np.abs(v[:, 2]), h / 2) and np.any(np.abs(r - r2) < 1e-9 * r2)
        return not ok, f"cylinder segment ({r1},{r2},{h},{spec['phis']}): radii {sorted(set(np.round(r, 6).tolist()))}"
    if k == "tetra-unchanged":
        import warnings

        import matplotlib

        matplotlib.use("Agg")
        vv = np.array([[g(f"vert_{i}_{c}") for c in range(3)] for i in range(4)])
        msgs = []
        for vs in (vv, vv[[0, 1, 3, 2]]):  # both chiralities
            t = m.magnet.Tetrahedron(polarization=(0, 0, 1), vertices=vs, position=pos, orientation=rot)
            before = (t.vertices.copy(), t.position.copy(), t.orientation.as_quat().copy())
            with warnings.catch_warnings():
                warnings.simplefilter("ignore")
                m.show(t, backend="plotly", return_fig=True)
            after = (t.vertices, t.position, t.orientation.as_quat())
            if not all(np.array_equal(a, b) for a, b in zip(before, after)):
                msgs.append(f"show() changed Tetrahedron.vertices from {before[0].tolist()} to {after[0].tolist()}")
        return bool(msgs), "; ".join(msgs[:1]) or "show() left the tetrahedron unchanged"
    if k == "tetra":
        vv = np.array([[g(f"vert_{i}_{c}") for c in range(3)] for i in range(4)])
        loc = rot.apply(V(TB.make_Tetrahedron("plotly-dict", vertices=vv, position=pos, orientation=rot)) - pos, inverse=True)
        ok = all(any(np.allclose(l, w, atol=1e-9) for l in loc) for w in vv)
        return not ok, f"tetrahedron vertices {vv.tolist()} drawn (object frame) {np.round(loc, 6).tolist()}"
    if k == "polyline":
        vv = np.array([[g(f"vert_{i}_{c}") for c in range(3)] for i in range(3)])
        obj = m.current.Polyline(vertices=vv, current=1)
        obj.style.arrow.show = False
        obj.style.line.show = True
        line = [t for t in TC.make_Polyline(obj) if t.get("mode") == "lines"]
        ok = len(line) == 1 and np.allclose(V(line[0]), vv)
        return not ok, f"polyline vertices {vv.tolist()} drawn {V(line[0]).tolist() if line else None}"
    if k == "circle":
        D = g("D")
        obj = m.current.Circle(diameter=D, current=1)
        obj.style.arrow.show = False
        obj.style.line.show = True
        v = V([t for t in TC.make_Circle(obj, base=12) if t.get("mode") == "lines"][0])
        ok = np.allclose(np.hypot(v[:, 0], v[:, 1]), D / 2, rtol=1e-9) and np.all(v[:, 2] == 0)
        return not ok, f"circle D={D}: radii {np.hypot(v[:, 0], v[:, 1]).tolist()}"
    raise ValueError(k)
