"""C17 (E1 part): shape acceptance of every public array attribute vs the documented format (CrossHair)."""
from . import chlib

PROPERTY = "C17"
FILE = "harness/chx_C17.py"
FUNCTIONS = ["magpylib._src.input_checks:check_array_shape", "magpylib._src.input_checks:check_format_input_vector",
             "magpylib._src.input_checks:validate_field_func", "magpylib._src.obj_classes.class_misc_CustomSource:CustomSource.field_func"]
BOUNDS = ["all shapes of rank 0..4 with dims 0..6 for: Cuboid/Cylinder/CylinderSegment.dimension, polarization, magnetization, Dipole.moment, "
          "Tetrahedron/Triangle/Polyline.vertices, Sensor.pixel, position, move displacement",
          "CustomSource.field_func: per field (B, H) the callable returns one of {None, (n,3) array, scalar, list, (n,2) array, (n,3,1) array} (symbolic selectors), "
          "through constructor or setter"]
CUTS = ["arrays are stand-ins exposing ndim/shape/len(); the per-attribute check configuration is captured from the real setter at run time"]
ASSUMPTIONS = ["CrossHair 'Confirmed over all paths' within the per-condition timeout"]
NOT_DECIDED = ["type grammar beyond shapes/None (strings, nested non-numeric sequences): decided inside np.array(..., dtype=float), compiled code",
               "TriangularMesh vertices/faces validation"]


def cases(tier, seed):
    return chlib.make_cases(FILE, tier, timeouts=(60, 300))


def run_case(case, info):
    return chlib.run_case(case, dict(info, pid=PROPERTY), "harness.chx_C17")


def replay(spec):
    ok, detail = chlib.replay_call(spec)
    if not ok:
        return ok, detail
    # "no accepted object later fails with an internal error": show the consequence through the public API when possible
    return ok, detail + " :: " + _consequence(spec["call"])


def _consequence(call):
    import re

    import numpy as np

    import magpylib as m
    from magpylib._src.exceptions import MagpylibBadUserInput, MagpylibMissingInput

    mm = re.match(r"h_(\w+)\((.*)\)", call)
    if not mm:
        return ""
    name, args = mm.group(1), [int(x) for x in re.findall(r"-?\d+", mm.group(2))]
    sh = tuple(args[1:5])[: args[0]]
    try:
        val = np.ones(sh) * np.arange(1, (sh[-1] if sh else 1) + 1) if sh else 1.0
        val = np.random.default_rng(0).normal(size=sh) if sh else 1.0
        if name == "tetrahedron_vertices":
            o = m.magnet.Tetrahedron(vertices=val, polarization=(1, 2, 3))
        elif name == "triangle_vertices":
            o = m.misc.Triangle(vertices=val, polarization=(1, 2, 3))
        else:
            return ""
    except MagpylibBadUserInput:
        return f"shape {sh} is rejected at assignment"
    try:
        o.getB((1, 2, 3))
        return f"shape {sh} was accepted at assignment and getB returned"
    except (MagpylibBadUserInput, MagpylibMissingInput) as e:
        return f"shape {sh} accepted at assignment, getB raised the library's input error {type(e).__name__}"
    except Exception as e:  # noqa
        return f"shape {sh} accepted at assignment, getB then fails with internal {type(e).__name__}: {str(e)[:100]}"
