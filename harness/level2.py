"""Scenes for getBH_level2 under SymNum: objects with symbolic poses, uninterpreted local field functions, and the
reference semantics of one output element.  Shared by C03, C04, C05, C06, C07, C08 harnesses.

scene spec (picklable):
  {"sources": [src, ...], "sensors": [sens, ...]}
  src  = {"kind": "custom", "tag": "a", "path": m}
       | {"kind": "dipole", "tag": "d1", "path": m}            (class-level kernel replaced by an uninterpreted one -> grouping)
       | {"kind": "coll", "children": [src, ...], "path": m}
       | {"ref": i}                                            (the same object as top-level source i: duplicates)
  sens = {"path": m, "pixel": None | shape tuple, "hand": "right"|"left", "orient": "sym"|"identity"|"static"}
"""
import itertools

import numpy as np
import z3

from symnum import CTX, S, SB, SymArray, SymRot, install, oarr, symarr, toz, ufcall, explore
from .common import neq_any, rel_close


# ----------------------------------------------------------------------------- uninterpreted local field functions
def uf_field_func(tag, extra=()):
    def f(field, observers, **kw):
        obs = np.asarray(observers)
        if obs.dtype != object:
            return np.zeros(obs.shape)
        n = len(obs)
        out = np.empty((n, 3), dtype=object)
        for i in range(n):
            args = list(obs[i])
            for nm in extra:
                args += list(np.asarray(kw[nm][i], dtype=object).ravel())
            for c in range(3):
                out[i, c] = ufcall(f"F_{tag}_{field}{c}", args)
        return out.view(SymArray)

    f.tag = tag
    return f


def generic_float_field(tag, extra=()):
    """deterministic smooth stand-in used for replay in doubles"""
    seed = sum(ord(ch) * (k + 1) for k, ch in enumerate(tag)) % 97

    def f(field, observers, **kw):
        o = np.asarray(observers, dtype=float)
        k = {"B": 1.0, "H": 2.0, "J": 3.0, "M": 4.0}[field] + seed / 10.0
        x, y, z = o.T
        out = np.stack([np.sin(x + 2 * y + k) + z * z, np.cos(y - z * k) + x * y, x - y + np.sin(z * k + x * y)], axis=1)
        for nm in extra:
            p = np.asarray(kw[nm], dtype=float).reshape(len(o), -1)
            out = out + p[:, :3] * (1 + o)
        return out

    return f


class Obj:
    """record of one magpylib object in a scene with its original (symbolic) pose"""

    def __init__(self, obj, name, kind):
        self.obj = obj
        self.name = name
        self.kind = kind
        self.P = None
        self.Q = None
        self.children = []
        self.tag = None
        self.extra = ()
        self.pixel = None
        self.hand = "right"


class Scene:
    def __init__(self, spec, symbolic=True, env=None):
        import magpylib

        self.spec = spec
        self.symbolic = symbolic
        self.env = env or {}
        self.assume = []
        self.inputs = []
        self.quat_groups = []
        self.count = 0
        self.top = []
        self.sensors = []
        self.all = []
        self._mag = magpylib
        for s in spec["sources"]:
            if "ref" in s:
                self.top.append(self.top[s["ref"]])
            else:
                self.top.append(self._mk_src(s))
        for s in spec["sensors"]:
            self.sensors.append(self._mk_sens(s))

    # -- building
    def _name(self, base):
        self.count += 1
        return f"{base}{self.count}"

    def _pose(self, o, m, orient="sym"):
        nm = o.name
        if self.symbolic:
            P = symarr(nm + "p", (m, 3))
            self.inputs += list(P.ravel())
            if orient == "identity":
                Q = SymRot(np.tile(np.array([0, 0, 0, 1.0]), (m, 1)), False)
            elif orient == "static":
                q = symarr(nm + "q", (1, 4))
                Q = SymRot(np.tile(q, (m, 1)), False)
                self.assume += SymRot(q, False).unit()
                self.inputs += list(q.ravel())
                self.quat_groups += [list(r) for r in q]
            else:
                q = symarr(nm + "q", (m, 4))
                Q = SymRot(q, False)
                self.assume += Q.unit()
                self.inputs += list(q.ravel())
                self.quat_groups += [list(r) for r in q]
            o.P, o.Q = P, Q
            o.obj._position = P.copy()
            o.obj._orientation = SymRot(Q.q.copy(), False)
        else:
            from scipy.spatial.transform import Rotation as R

            P = np.array([[self.env.get(f"{nm}p_{i}_{c}", 0.0) or 0.0 for c in range(3)] for i in range(m)])
            if orient == "identity":
                q = np.tile(np.array([0, 0, 0, 1.0]), (m, 1))
            elif orient == "static":
                q0 = [self.env.get(f"{nm}q_0_{c}", 0.0) or 0.0 for c in range(4)]
                q = np.tile(np.array(q0), (m, 1))
            else:
                q = np.array([[self.env.get(f"{nm}q_{i}_{c}", 0.0) or 0.0 for c in range(4)] for i in range(m)])
            nrm = np.linalg.norm(q, axis=1)
            q[nrm == 0] = [0, 0, 0, 1.0]
            o.P, o.Q = P, R.from_quat(q)
            o.obj._position = P.copy()
            o.obj._orientation = R.from_quat(q)

    def _mk_src(self, s):
        mp = self._mag
        kind = s["kind"]
        if kind == "coll":
            o = Obj(mp.Collection(), self._name("C"), "coll")
            for ch in s["children"]:
                if "ref" in ch:  # an object that is also listed at top level (reachable twice)
                    c = self.top[ch["ref"]]
                else:
                    c = self._mk_src(ch) if ch.get("kind") != "sensor" else self._mk_sens(ch, register=False)
                o.children.append(c)
                o.obj.add(c.obj)
            self._pose(o, s.get("path", 1))
            self.all.append(o)
            return o
        tag = s["tag"]
        if kind == "custom":
            ff = uf_field_func(tag) if self.symbolic else generic_float_field(tag)
            o = Obj(mp.misc.CustomSource(field_func=ff), self._name("S"), "custom")
        elif kind == "dipole":
            o = Obj(mp.misc.Dipole(moment=(1, 2, 3)), self._name("D"), "dipole")
            o.extra = ("moment",)
            if self.symbolic:
                mom = symarr(o.name + "m", (3,))
                self.inputs += list(mom)
            else:
                mom = np.array([self.env.get(f"{o.name}m_{c}", 0.0) or 0.0 for c in range(3)])
            o.obj._moment = mom
            o.params = {"moment": mom}
        else:
            raise ValueError(kind)
        o.tag = tag
        self._pose(o, s.get("path", 1))
        self.all.append(o)
        return o

    def _mk_sens(self, s, register=True):
        mp = self._mag
        o = Obj(mp.Sensor(), self._name("X"), "sensor")
        shp = s.get("pixel")
        if shp is not None:
            shp = tuple(shp)
            if self.symbolic:
                pix = symarr(o.name + "x", shp)
                self.inputs += list(pix.ravel())
            else:
                pix = np.zeros(shp)
                for idx in np.ndindex(*shp):
                    pix[idx] = self.env.get(o.name + "x_" + "_".join(map(str, idx)), 0.0) or 0.0
            o.obj._pixel = pix
            o.pixel = pix
        o.hand = s.get("hand", "right")
        o.obj._handedness = o.hand
        self._pose(o, s.get("path", 1), s.get("orient", "sym"))
        self.all.append(o)
        return o

    # -- patched class kernels (so that several objects of one class are evaluated as a group)
    def patch_classes(self):
        mp = self._mag
        if any(o.kind == "dipole" for o in self.all):
            ff = uf_field_func("dip", ("moment",)) if self.symbolic else generic_float_field("dip", ("moment",))
            self._saved_dip = mp.misc.Dipole._field_func
            mp.misc.Dipole._field_func = staticmethod(ff)

    def unpatch_classes(self):
        if hasattr(self, "_saved_dip"):
            self._mag.misc.Dipole._field_func = self._saved_dip
            del self._saved_dip

    # -- reference semantics
    def leaves(self, o):
        if o.kind == "coll":
            out = []
            for c in o.children:
                if c.kind != "sensor":
                    out += self.leaves(c)
            return out
        return [o]

    def max_path(self):
        objs = []
        for o in self.top:
            objs += self.leaves(o)
        objs += self.sensors
        return max(len(o.P) for o in objs)

    def local_field(self, leaf, field, loc):
        tag = "dip" if leaf.kind == "dipole" else leaf.tag
        if self.symbolic:
            args = list(loc)
            if leaf.kind == "dipole":
                args += list(leaf.params["moment"])
            return np.array([ufcall(f"F_{tag}_{field}{c}", args) for c in range(3)], dtype=object)
        ff = generic_float_field(tag, leaf.extra)
        kw = {"moment": np.array([leaf.params["moment"]])} if leaf.kind == "dipole" else {}
        return ff(field, np.array([loc]), **kw)[0]

    def leaf_field_global(self, leaf, field, g, m):
        ms = min(m, len(leaf.P) - 1)
        q = leaf.Q[ms]
        loc = q.apply(g - leaf.P[ms], inverse=True)
        return q.apply(self.local_field(leaf, field, loc))

    def element(self, top_obj, sens, m, pix, field):
        """field of one top-level source entry at path index m seen by one pixel (vector offset pix or None) of sens"""
        mk = min(m, len(sens.P) - 1)
        qk = sens.Q[mk]
        off = qk.apply(pix) if pix is not None else (oarr(np.zeros(3)) if self.symbolic else np.zeros(3))
        g = off + sens.P[mk]
        tot = None
        for leaf in self.leaves(top_obj):
            b = self.leaf_field_global(leaf, field, g, m)
            tot = b if tot is None else tot + b
        out = qk.apply(tot, inverse=True)
        if sens.hand == "left":
            out = out * np.array([-1, 1, 1])
        return out

    def expected(self, field):
        """object/float array (L, M, K, npix_k...) as nested lists: exp[l][m][k] = array (npix, 3)"""
        M = self.max_path()
        exp = []
        for t in self.top:
            rows = []
            for m in range(M):
                per_s = []
                for s in self.sensors:
                    if s.pixel is None:
                        pixs = [None]
                    else:
                        pixs = list(np.asarray(s.pixel, dtype=object if self.symbolic else float).reshape(-1, 3))
                    per_s.append(np.array([self.element(t, s, m, p, field) for p in pixs], dtype=object if self.symbolic else float))
                rows.append(per_s)
            exp.append(rows)
        return exp

    def pix_shape(self, s):
        if s.pixel is None or np.shape(s.pixel) == (3,):
            return (1, 3)
        return tuple(np.shape(s.pixel))

    def call(self, field, sumup=False, squeeze=False, pixel_agg=None, sources=None, observers=None, **kw):
        from magpylib._src.fields.field_wrap_BH import getBH_level2

        srcs = [o.obj for o in self.top] if sources is None else sources
        obs = [s.obj for s in self.sensors] if observers is None else observers
        return getBH_level2(srcs, obs, field=field, sumup=sumup, squeeze=squeeze, pixel_agg=pixel_agg, output="ndarray", in_out="auto", **kw)

    def snapshot(self):
        """state of every object that a field computation must not change"""
        snap = {}
        for o in self.all:
            ob = o.obj
            _ = ob.style  # styles are created lazily on first access; initialise so that identity can be compared
            snap[o.name] = {
                "pos": ob._position,
                "pos_copy": np.array(ob._position, copy=True),
                "ori": ob._orientation,
                "quat": np.array(ob._orientation.as_quat(), copy=True),
                "parent": ob._parent,
                "children": list(getattr(ob, "_children", [])) if hasattr(ob, "_children") else None,
                "style": getattr(ob, "_style", None),
                "pixel": getattr(ob, "_pixel", None),
                "pixel_copy": None if getattr(ob, "_pixel", None) is None else np.array(ob._pixel, copy=True),
                "moment": getattr(ob, "_moment", None),
                "field_func": getattr(ob, "_field_func", None),
            }
        return snap


def flatten_expected(scene, exp, sumup=False, pixel_agg=None):
    """expected result as (L, M, K, ...) comparable to squeeze=False output when all pixel shapes agree, else per sensor"""
    return exp


def compare_full(scene, out, field, sumup=False, pixel_agg=None):
    """list of (index description, got, expected) triples, element-wise, for squeeze=False output without pixel_agg"""
    exp = scene.expected(field)
    L, M, K = len(scene.top), scene.max_path(), len(scene.sensors)
    pairs = []
    shapes = [scene.pix_shape(s) for s in scene.sensors]
    want_shape = ((1 if sumup else L), M, K) + (shapes[0] if pixel_agg is None else (1, 3))
    got = np.asarray(out, dtype=object if scene.symbolic else float)
    if got.shape != tuple(want_shape):
        return None, f"shape {got.shape} != expected {tuple(want_shape)}"
    for m in range(M):
        for k in range(K):
            npix = exp[0][m][k].shape[0]
            per_l = [exp[l][m][k] for l in range(L)]
            if sumup:
                tot = per_l[0]
                for x in per_l[1:]:
                    tot = tot + x
                per_l = [tot]
            for l, e in enumerate(per_l):
                g = got[l, m, k].reshape(-1, 3)
                if pixel_agg is not None:
                    e = reduce_pixels(e, pixel_agg, scene.symbolic)
                for pi in range(e.shape[0]):
                    pairs.append((f"[{l},{m},{k},{pi}]", g[pi], e[pi]))
    return pairs, None


def reduce_pixels(e, agg, symbolic):
    from symnum import zmin, zmax
    import functools

    cols = []
    for c in range(3):
        col = list(e[:, c])
        if agg == "mean":
            v = functools.reduce(lambda a, b: a + b, col) / len(col)
        elif agg == "sum":
            v = functools.reduce(lambda a, b: a + b, col)
        elif agg == "min":
            v = functools.reduce(zmin, col) if symbolic else min(col)
        elif agg == "max":
            v = functools.reduce(zmax, col) if symbolic else max(col)
        else:
            raise ValueError(agg)
        cols.append(v)
    return np.array([cols], dtype=object if symbolic else float)


# ----------------------------------------------------------------------------- C06 (a)
def c06_cases(tier):
    cu = lambda tag, m=1: {"kind": "custom", "tag": tag, "path": m}
    di = lambda tag, m=1: {"kind": "dipole", "tag": tag, "path": m}
    se = lambda m=1, pixel=None, orient="identity", hand="right": {"path": m, "pixel": pixel, "orient": orient, "hand": hand}
    scenes = {
        "one-one": {"sources": [cu("a")], "sensors": [se()]},
        "two-custom-paths": {"sources": [cu("a", 1), cu("b", 3)], "sensors": [se(2, (3,))]},
        "dup-source": {"sources": [cu("a", 2), cu("b"), {"ref": 0}], "sensors": [se(1, (2, 3))]},
        "group-dipoles": {"sources": [di("d1", 2), cu("a"), di("d2", 1)], "sensors": [se(1), se(2)]},
        "group-of-one-at-end": {"sources": [di("d1"), di("d2", 3), cu("a", 2)], "sensors": [se(1, (2, 3))]},
        "rot-sensor": {"sources": [cu("a", 2)], "sensors": [se(2, (3,), "sym")]},
    }
    if tier == "thorough":
        scenes.update({
            "three-sources-rot": {"sources": [cu("a", 3), di("d1", 2), di("d2", 3)], "sensors": [se(3, (2, 3), "sym"), se(1, (2, 3), "static")]},
            "coll-mixed": {"sources": [{"kind": "coll", "children": [cu("a", 2), di("d1", 2)], "path": 2}, cu("b", 3), di("d2")],
                           "sensors": [se(1, (1, 2, 3))]},
        })
    out = []
    for nm, sc in scenes.items():
        out.append({"id": f"level2-{nm}", "kind": "level2", "scene": sc, "weight": 4})
    return out


def c06_run(C):
    from magpylib._src.fields import field_wrap_BH as W

    spec = C.case["scene"]
    C.concrete_trace(replay, {"kind": "level2-c06", "scene": spec, "env": {}}, f"C06|getBH_level2|{C.case['id']}|concrete")

    def run():
        sc = Scene(spec)
        sc.patch_classes()
        try:
            res = {}
            try:
                res["full"] = sc.call("B", squeeze=False)
            except Exception as e:  # noqa
                return sc, {"raised": e}
            res["sq"] = sc.call("B", squeeze=True)
            # element-by-element: each top-level source alone with each sensor alone
            singles = {}
            for l, t in enumerate(sc.top):
                for k, s in enumerate(sc.sensors):
                    singles[(l, k)] = sc.call("B", squeeze=False, sources=[t.obj], observers=[s.obj])
            res["singles"] = singles
            # permuted order
            if len(sc.top) > 1:
                perm = list(range(len(sc.top)))[::-1]
                res["perm"] = (perm, sc.call("B", squeeze=False, sources=[sc.top[i].obj for i in perm]))
        finally:
            sc.unpatch_classes()
        return sc, res

    def on_path(p):
        C.paths += 1
        if p.status != "ok":
            C.note_inconclusive(f"p{C.paths}", f"aborted: {p.out}")
            return
        sc, res = p.out
        assume = p.pc + sc.assume
        tag = f"p{C.paths}"

        def on_model(env):
            return {"key": f"C06|getBH_level2|{C.case['id']}", "replay": {"kind": "level2-c06", "scene": spec, "env": env}}

        if "raised" in res:
            C.obligations.append({"name": f"{tag}.returns", "status": "sat", "note": f"raised {type(res['raised']).__name__}: {res['raised']}"})
            C.candidates.append({"key": f"C06|getBH_level2|raises|{C.case['id']}", "replay": {"kind": "level2-c06", "scene": spec, "env": {}}})
            return

        pairs, err = compare_full(sc, res["full"], "B")
        if err:
            C.obligations.append({"name": f"{tag}.shape", "status": "sat", "note": err})
            C.candidates.append({"key": f"C06|getBH_level2|shape|{C.case['id']}", "replay": {"kind": "level2-c06", "scene": spec, "env": {}}})
            return
        C.obligations.append({"name": f"{tag}.shape", "status": "unsat", "witness": "sat", "note": f"shape {np.shape(res['full'])}"})
        viol = z3.Or(*[z3.Or(*[toz(g[c]) != toz(e[c]) for c in range(3)]) for _, g, e in pairs])
        C.oblige(f"{tag}.elements==reference", assume, viol, on_model=on_model, inputs=sc.inputs, nice=False, quat_groups=sc.quat_groups,
                 sample=f"getBH_level2 squeeze=False: {len(pairs)} elements each equal q_k^-1 * q_s * F_s(q_s^-1 (q_k pix + p_k - p_s)) at the held path index")
        full = np.asarray(res["full"], dtype=object)
        # squeeze only removes length-1 axes
        sq = np.asarray(res["sq"], dtype=object)
        if sq.shape != np.squeeze(full).shape:
            C.obligations.append({"name": f"{tag}.squeeze-shape", "status": "sat", "note": f"{sq.shape} vs {np.squeeze(full).shape}"})
            C.candidates.append({"key": f"C06|getBH_level2|squeeze|{C.case['id']}", "replay": {"kind": "level2-c06", "scene": spec, "env": {}}})
        else:
            C.oblige(f"{tag}.squeeze-values", assume, neq_any(sq, np.squeeze(full)), on_model=on_model, inputs=sc.inputs, nice=False, quat_groups=sc.quat_groups)
        M = sc.max_path()
        for (l, k), single in res["singles"].items():
            single = np.asarray(single, dtype=object)
            ms = single.shape[1]
            # single call has its own (possibly shorter) path length; compare on its indices and hold the last pose
            terms = []
            for m in range(M):
                mm = min(m, ms - 1)
                terms.append(neq_any(full[l, m, k], single[0, mm, 0]))
            C.oblige(f"{tag}.single[{l},{k}]", assume, z3.Or(*terms), on_model=on_model, inputs=sc.inputs, nice=False, quat_groups=sc.quat_groups)
        if "perm" in res:
            perm, outp = res["perm"]
            outp = np.asarray(outp, dtype=object)
            C.oblige(f"{tag}.permuted-sources", assume, z3.Or(*[neq_any(outp[j], full[i]) for j, i in enumerate(perm)]),
                     on_model=on_model, inputs=sc.inputs, nice=False, quat_groups=sc.quat_groups)

    paths = explore(run, max_paths=120 if C.tier == "quick" else 600, on_path=on_path)
    C.decisions += sum(len(p.decisions) for p in paths)
    if explore.truncated:
        C.note_inconclusive("path-budget", "path budget hit")


def replay(spec):
    kind = spec["kind"]
    if kind == "level2-c06":
        return _replay_c06(spec)
    raise ValueError(kind)


def _replay_c06(spec):
    sc = Scene(spec["scene"], symbolic=False, env=spec.get("env", {}))
    sc.patch_classes()
    try:
        try:
            full = np.asarray(sc.call("B", squeeze=False), dtype=float)
        except Exception as e:  # noqa
            return True, f"valid call raised {type(e).__name__}: {str(e)[:200]}"
        pairs, err = compare_full(sc, full, "B")
        if err:
            return True, err
        bad = [(d, g.tolist(), e.tolist()) for d, g, e in pairs if not rel_close(g, e, 1e-9, 1e-12)]
        if bad:
            return True, f"element {bad[0][0]}: got {bad[0][1]} expected {bad[0][2]} ({len(bad)} of {len(pairs)} differ)"
        sq = np.asarray(sc.call("B", squeeze=True), dtype=float)
        if sq.shape != np.squeeze(full).shape or not rel_close(sq, np.squeeze(full), 1e-12):
            return True, f"squeeze=True result differs from np.squeeze(full): {sq.shape} vs {np.squeeze(full).shape}"
        M = sc.max_path()
        for l, t in enumerate(sc.top):
            for k, s in enumerate(sc.sensors):
                single = np.asarray(sc.call("B", squeeze=False, sources=[t.obj], observers=[s.obj]), dtype=float)
                for m in range(M):
                    mm = min(m, single.shape[1] - 1)
                    if not rel_close(full[l, m, k], single[0, mm, 0], 1e-9, 1e-12):
                        return True, f"element [{l},{m},{k}] differs from the single-object call"
        if len(sc.top) > 1:
            perm = list(range(len(sc.top)))[::-1]
            outp = np.asarray(sc.call("B", squeeze=False, sources=[sc.top[i].obj for i in perm]), dtype=float)
            for j, i in enumerate(perm):
                if not rel_close(outp[j], full[i], 1e-9, 1e-12):
                    return True, "permuting the source list changes a source's entry"
        return False, "all elements agree with the reference in doubles"
    finally:
        sc.unpatch_classes()
