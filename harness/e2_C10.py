"""C10  operations on a Collection keep every child's pose relative to it.

Real BaseTransform.move / _rotate / apply_rotation (parent-path branch) and the BaseGeo position / orientation setters and
reset_path on collection trees whose poses are symbolic; one operation with symbolic arguments; for every descendant and
every new path index the pose expressed in the collection frame, q_C^-1 (p_child - p_C) and q_C^-1 q_child, must equal the
one at the old index the new entry derives from (edge padding / end slicing), for all reals.  Operating on a child alone
must leave every other object term-identical.
"""
import itertools

import numpy as np
import z3

from symnum import CTX, SymRot, oarr, symarr, toz, symrot
from .common import Case, neq_any, neq_rot, rel_close
from .e2_C09 import ref_layout

PROPERTY = "C10"
FUNCTIONS = [
    "magpylib._src.obj_classes.class_BaseTransform:BaseTransform.move",
    "magpylib._src.obj_classes.class_BaseTransform:BaseTransform._rotate",
    "magpylib._src.obj_classes.class_BaseTransform:BaseTransform.rotate",
    "magpylib._src.obj_classes.class_BaseTransform:apply_rotation",
    "magpylib._src.obj_classes.class_BaseTransform:apply_move",
    "magpylib._src.obj_classes.class_BaseTransform:path_padding",
    "magpylib._src.obj_classes.class_BaseGeo:BaseGeo.position",
    "magpylib._src.obj_classes.class_BaseGeo:BaseGeo.orientation",
    "magpylib._src.obj_classes.class_BaseGeo:BaseGeo.reset_path",
    "magpylib._src.obj_classes.class_BaseGeo:pad_slice_path",
]
BOUNDS = [
    "trees: C[a,b], C[a,inner[b]], C[inner[a,b]] (depth <=2, <=3 objects below the root); all members share the path length N in {1,2} (quick) / {1,2,3} (thorough)",
    "operations: move, rotate with anchor in {None, 0, vector, per-step, the collection's own .position array, its first child's .position array}, position=, orientation=, reset_path, on the root or on an inner collection; "
    "input length in {scalar, 2}, start in {-2,-1,0,1,2,'auto'} (quick: {-1,0,1,'auto'}, vector rotations only with start 0/'auto', trees flat+nested); "
    "all real poses / unit quaternions / displacements / anchors",
]
CUTS = ["scipy Rotation replaced by SymRot (unit quaternion model)"]
ASSUMPTIONS = ["real arithmetic; unit norm of all input quaternions; rotations compared up to quaternion sign"]
NOT_DECIDED = ["members whose path length differs from the collection's (excluded by the property's quantifier)", "rotate_from_* on collections (same code path as rotate, decided for single objects in C09)"]

TREES = {
    "flat": ("C", [("a", []), ("b", [])]),
    "nested": ("C", [("a", []), ("I", [("b", [])])]),
    "inner2": ("C", [("I", [("a", []), ("b", [])])]),
}
STARTS = [-2, -1, 0, 1, 2, "auto"]
OPS = ["move", "rotate-none", "rotate-0", "rotate-vec", "rotate-step", "rotate-ownpos", "rotate-kidpos", "position=", "orientation=", "reset_path"]
ALIAS_OPS = ("rotate-ownpos", "rotate-kidpos")  # the anchor argument is the .position array of the collection itself / of its first child


def cases(tier, seed):
    out = []
    Ns = (1, 2) if tier == "quick" else (1, 2, 3)
    for tree in (("flat", "nested") if tier == "quick" else TREES):
        for N in Ns:
            for op in OPS:
                out.append({"id": f"{tree}-N{N}-{op}", "kind": "coll", "tree": tree, "N": N, "op": op, "target": "root", "weight": 3})
    # a vector rotation merged into the middle of a longer path (start + n < N) with the parent-path anchor
    out.append({"id": "flat-N3-rotate-none-midpath", "kind": "coll", "tree": "flat", "N": 3, "op": "rotate-none", "target": "root", "weight": 5,
                "combos": [[2, 0], [2, 1], [2, -3], [None, 1]]})
    out.append({"id": "nested-N3-move-midpath", "kind": "coll", "tree": "nested", "N": 3, "op": "move", "target": "root", "weight": 3, "combos": [[2, 0], [2, -3]]})
    # two-step histories: the first child was given the collection's own position array (child.position = coll.position, a view of the
    # collection's path), then the collection is operated on
    for N in Ns:
        for op in ("move", "rotate-0", "position="):
            out.append({"id": f"flat-N{N}-{op}-after-kidpos-assign", "kind": "coll", "tree": "flat", "N": N, "op": op, "target": "root", "weight": 3,
                        "prelude": "kidpos=ownpos"})
    for N in Ns:
        for op in ("move", "rotate-vec", "position="):
            out.append({"id": f"nested-N{N}-{op}-on-inner", "kind": "coll", "tree": "nested", "N": N, "op": op, "target": "I", "weight": 3})
        out.append({"id": f"nested-N{N}-child-alone", "kind": "child", "tree": "nested", "N": N, "weight": 2})
    return out


class Node:
    def __init__(self, name, obj, N, symbolic=True, env=None):
        self.name = name
        self.obj = obj
        self.kids = []
        if symbolic:
            self.P = symarr(name + "p", (N, 3))
            q = symarr(name + "q", (N, 4))
            self.Q = SymRot(q, False)
            obj._position = self.P.copy()
            obj._orientation = SymRot(q.copy(), False)
            self.unit = self.Q.unit()
            self.inputs = list(self.P.ravel()) + list(q.ravel())
            self.qg = [list(r) for r in q]
        else:
            from scipy.spatial.transform import Rotation as R

            rng = env["__rng__"]
            g = lambda k: env[k] if env.get(k) is not None else float(rng.normal())
            self.P = np.array([[g(f"{name}p_{i}_{c}") for c in range(3)] for i in range(N)])
            q = np.array([[g(f"{name}q_{i}_{c}") for c in range(4)] for i in range(N)])
            q = q / np.linalg.norm(q, axis=1)[:, None]
            self.Q = R.from_quat(q)
            obj._position = self.P.copy()
            obj._orientation = R.from_quat(q)


def build(tree, N, symbolic=True, env=None):
    import magpylib

    def mk(spec):
        name, kids = spec
        obj = magpylib.Collection() if (kids or name in ("C", "I")) else magpylib.Sensor()
        node = Node(name, obj, N, symbolic, env)
        for k in kids:
            kn = mk(k)
            node.kids.append(kn)
            obj.add(kn.obj)
        return node

    return mk(TREES[tree])


def all_nodes(n):
    out = [n]
    for k in n.kids:
        out += all_nodes(k)
    return out


def descendants(n):
    out = []
    for k in n.kids:
        out += [k] + descendants(k)
    return out


def find(n, name):
    return next(x for x in all_nodes(n) if x.name == name)


def _prelude(spec, target):
    """history before the operation under test (through the public API); keeps the recorded old poses in step"""
    if spec.get("prelude") == "kidpos=ownpos":
        kid = target.kids[0]
        kid.obj.position = target.obj.position  # the getter hands out a view of the collection's path
        kid.P = target.P.copy()


def rel_pose(Pc, Qc, Pk, Qk, i):
    qc = Qc[i]
    return qc.apply(Pk[i] - Pc[i], inverse=True), (qc.inv() * Qk[i]).as_quat()


def _arg_forms(op, N):
    """(n_in or None) input forms for an operation"""
    if op in ("position=", "orientation="):
        return [1, 2, 3]
    if op == "reset_path":
        return [None]
    return [None, 2]


def _layout(op, N, n_in, start, n_anchor=None):
    if op == "position=" or op == "orientation=":
        M = n_in
        src = [min(i, N - 1) for i in range(M)] if M >= N else [i + (N - M) for i in range(M)]
        return M, src
    if op == "reset_path":
        return 1, [N - 1]
    n_eff = n_in if n_anchor is None else max(n_anchor, n_in or 1)
    L, src, rng, s = ref_layout(N, n_eff, start)
    return L, src


def _apply(op, target, N, n_in, start, symbolic=True, env=None, R=None):
    """apply one operation to target.obj; returns (unit assumptions, inputs, quat groups, n_anchor)"""
    unit, inputs, qg = [], [], []
    g = None
    if not symbolic:
        rng = env["__rng__"]
        g = lambda k: env[k] if env.get(k) is not None else float(rng.normal())

    def vec(name, shape):
        if symbolic:
            a = symarr(name, shape)
            inputs.extend(list(a.ravel()))
            return a
        a = np.zeros(shape)
        for idx in np.ndindex(*shape):
            a[idx] = g(name + "_" + "_".join(map(str, idx)))
        return a

    def rot(name, n):
        if symbolic:
            r, u = symrot(name, n)
            unit.extend(u)
            inputs.extend(list(r.q.ravel()))
            qg.extend([list(x) for x in r.q])
            return r
        q = vec(name, (4,) if n is None else (n, 4))
        q = q / np.linalg.norm(q, axis=-1, keepdims=True)
        return R.from_quat(q)

    n_anchor = None
    o = target.obj
    if op == "move":
        d = vec("d", (3,) if n_in is None else (n_in, 3))
        o.move(d, start=start)
    elif op.startswith("rotate"):
        r = rot("r", n_in)
        kind = op.split("-")[1]
        if kind == "none":
            o.rotate(r, start=start)
        elif kind == "0":
            o.rotate(r, anchor=0, start=start)
        elif kind == "vec":
            o.rotate(r, anchor=vec("an", (3,)), start=start)
        elif kind in ("ownpos", "kidpos"):
            a = o.position if kind == "ownpos" else o.children[0].position
            n_anchor = None if np.ndim(a) == 1 else len(a)
            o.rotate(r, anchor=a, start=start)
        else:
            n_anchor = 2 if n_in != 2 else 3
            o.rotate(r, anchor=vec("an", (n_anchor, 3)), start=start)
    elif op == "position=":
        p = vec("np", (n_in, 3))
        o.position = p if n_in > 1 else p[0]
    elif op == "orientation=":
        r = rot("nq", n_in)
        o.orientation = r if n_in > 1 else r[0]
    elif op == "reset_path":
        o.reset_path()
    return unit, inputs, qg, n_anchor


def run_case(case, info):
    C = Case(case, info, qtimeout=20000 if info["tier"] == "quick" else 120000)
    if case["kind"] == "child":
        _child_alone(C)
        return C.result()
    tree, N, op = case["tree"], case["N"], case["op"]
    starts = STARTS if op in ("move",) or op.startswith("rotate") else [None]
    if C.tier == "quick" and starts != [None]:
        starts = [-1, 0, 1, "auto"]
    combos = [tuple(c) for c in case["combos"]] if case.get("combos") else list(itertools.product(_arg_forms(op, N), starts))
    for n_in, start in combos:
        if C.tier == "quick" and not case.get("combos") and op.startswith("rotate") and n_in is not None and start not in (0, "auto"):
            continue  # vector rotations with merging starts need the long solver runs: thorough tier
        if op in ALIAS_OPS and n_in is not None and N > 1 and n_in != N:
            continue  # anchor (N,3) and a rotation of another length is not a valid call
        CTX.reset([])
        root = build(tree, N)
        target = root if case["target"] == "root" else find(root, case["target"])
        nodes = all_nodes(root)
        unit = [u for n in nodes for u in n.unit]
        inputs = [x for n in nodes for x in n.inputs]
        qg = [g for n in nodes for g in n.qg]
        tag = f"in={n_in},start={start}"
        rp = {"kind": "coll", "tree": tree, "N": N, "op": op, "target": case["target"], "n_in": n_in, "start": start, "prelude": case.get("prelude")}
        try:
            _prelude(case, target)
            u2, in2, qg2, n_anchor = _apply(op, target, N, n_in, start)
        except Exception as e:  # noqa
            C.obligations.append({"name": f"{tag}.returns", "status": "sat", "note": f"raised {type(e).__name__}: {e}"})
            C.candidates.append({"key": f"C10|{op}|raises", "replay": dict(rp, env={})})
            continue
        C.paths += 1
        C.decisions += len(CTX.trace)
        L, src = _layout(op, N, n_in, start, n_anchor)
        desc = descendants(target)
        lens = {n.name: (len(n.obj._position), len(n.obj._orientation)) for n in [target] + desc}
        if any(v != (L, L) for v in lens.values()):
            C.obligations.append({"name": f"{tag}.lengths", "status": "sat", "note": f"path lengths {lens}, expected {L} for all members"})
            C.candidates.append({"key": f"C10|{op}|lengths", "replay": dict(rp, env={})})
            continue
        terms = []
        newPc, newQc = target.obj._position, target.obj._orientation
        for d in desc:
            for i in range(L):
                rp_new, rq_new = rel_pose(newPc, newQc, d.obj._position, d.obj._orientation, i)
                rp_old, rq_old = rel_pose(target.P, target.Q, d.P, d.Q, src[i])
                terms.append(neq_any(rp_new, rp_old))
                terms.append(neq_rot(rq_new, rq_old))
        # objects outside the operated subtree stay term-identical
        inside = {n.name for n in [target] + desc}
        for n in nodes:
            if n.name not in inside:
                if np.shape(n.obj._position) != np.shape(n.P):
                    terms.append(z3.BoolVal(True))
                else:
                    terms.append(neq_any(n.obj._position, n.P))
                    terms.append(neq_any(n.obj._orientation.as_quat(), n.Q.q))
        C.concrete_trace(replay, dict(rp, env={}), f"C10|{op}|relative-pose|{tree}|concrete")
        C.oblige(f"{tag}.relative-poses", CTX.pc + unit + u2, z3.Or(*terms),
                 on_model=lambda env, rp=rp: {"key": f"C10|{op}|relative-pose|{tree}", "replay": dict(rp, env=env)},
                 inputs=inputs + in2, nice=False, quat_groups=qg + qg2, key=f"C10|{op}|relative-pose|{tree}|{n_in}|{start}",
                 sample=f"{op} on {case['target']} of tree {tree} (N={N}, input {n_in}, start={start}): {len(desc)} descendants x {L} path entries keep q_C^-1(p-p_C) and q_C^-1 q")
    return C.result()


def _child_alone(C):
    tree, N = C.case["tree"], C.case["N"]
    for op, n_in, start in (("move", None, "auto"), ("move", 2, 0), ("rotate-vec", None, 0), ("rotate-none", 2, "auto"), ("position=", 2, None)):
        CTX.reset([])
        root = build(tree, N)
        child = find(root, "b")
        nodes = all_nodes(root)
        unit = [u for n in nodes for u in n.unit]
        inputs = [x for n in nodes for x in n.inputs]
        rp = {"kind": "child", "tree": tree, "N": N, "op": op, "n_in": n_in, "start": start}
        try:
            u2, in2, qg2, _ = _apply(op, child, N, n_in, start)
        except Exception as e:  # noqa
            C.obligations.append({"name": f"{op}.returns", "status": "sat", "note": f"raised {type(e).__name__}: {e}"})
            C.candidates.append({"key": f"C10|child-{op}|raises", "replay": dict(rp, env={})})
            continue
        C.paths += 1
        terms = []
        for n in nodes:
            if n is child:
                continue
            if np.shape(n.obj._position) != np.shape(n.P) or len(n.obj._orientation) != len(n.Q):
                terms = [z3.BoolVal(True)]
                break
            terms.append(neq_any(n.obj._position, n.P))
            terms.append(neq_any(n.obj._orientation.as_quat(), n.Q.q))
        C.oblige(f"child-{op}-in={n_in}-start={start}.others-unchanged", CTX.pc + unit + u2, z3.Or(*terms),
                 on_model=lambda env, rp=rp: {"key": f"C10|child-{op}|others-changed", "replay": dict(rp, env=env)}, inputs=inputs + in2, nice=False,
                 sample=f"{op} on a child alone leaves the collection and the siblings term-identical")


# ----------------------------------------------------------------------------- replay
def replay(spec):
    from scipy.spatial.transform import Rotation as R

    env = dict(spec.get("env") or {})
    env["__rng__"] = np.random.default_rng(31)
    tree, N, op = spec["tree"], spec["N"], spec["op"]
    root = build(tree, N, symbolic=False, env=env)
    nodes = all_nodes(root)
    if spec["kind"] == "child":
        child = find(root, "b")
        try:
            _apply(op, child, N, spec["n_in"], spec["start"], symbolic=False, env=env, R=R)
        except Exception as e:  # noqa
            return True, f"valid call raised {type(e).__name__}: {e}"
        for n in nodes:
            if n is child:
                continue
            if n.obj._position.shape != n.P.shape or not np.array_equal(n.obj._position, n.P) or \
                    np.max((n.obj._orientation * n.Q.inv()).magnitude()) > 1e-12:
                return True, f"{op} on child b changed object {n.name}"
        return False, "others unchanged"
    target = root if spec["target"] == "root" else find(root, spec["target"])
    try:
        _prelude(spec, target)
        _, _, _, n_anchor = _apply(op, target, N, spec["n_in"], spec["start"], symbolic=False, env=env, R=R)
    except Exception as e:  # noqa
        return True, f"{op} on {spec['target']} ({tree}, N={N}, input {spec['n_in']}, start={spec['start']}): valid call raised {type(e).__name__}: {e}"
    L, src = _layout(op, N, spec["n_in"], spec["start"], n_anchor)
    desc = descendants(target)
    lens = {n.name: (len(n.obj._position), len(n.obj._orientation)) for n in [target] + desc}
    if any(v != (L, L) for v in lens.values()):
        return True, f"{op}: path lengths {lens}, expected {L} for all members"
    for d in desc:
        for i in range(L):
            qc_new = target.obj._orientation[i]
            rp_new = qc_new.apply(d.obj._position[i] - target.obj._position[i], inverse=True)
            rq_new = qc_new.inv() * d.obj._orientation[i]
            qc_old = target.Q[src[i]]
            rp_old = qc_old.apply(d.P[src[i]] - target.P[src[i]], inverse=True)
            rq_old = qc_old.inv() * d.Q[src[i]]
            if not rel_close(rp_new, rp_old, 1e-9, 1e-12) or (rq_new * rq_old.inv()).magnitude() > 1e-9:
                return True, (f"{op} on {spec['target']} ({tree}, N={N}, input {spec['n_in']}, start={spec['start']}): child {d.name} at path index {i}: "
                              f"relative position {rp_new.tolist()} was {rp_old.tolist()} (old index {src[i]})")
    inside = {n.name for n in [target] + desc}
    for n in nodes:
        if n.name not in inside and (n.obj._position.shape != n.P.shape or not np.array_equal(n.obj._position, n.P)):
            return True, f"{op} on {spec['target']} changed {n.name}, which is outside the operated subtree"
    return False, "relative poses preserved in doubles"
