"""CrossHair harness functions for C17: shape acceptance of every public array attribute vs. the documented format.

The configuration (dims, shape_m1, length) each setter passes to check_array_shape is CAPTURED FROM THE REAL SETTER at import time
(spy on check_array_shape while the setter is called once with a valid value), so a changed setter changes the obligation.
The real check_array_shape then runs on a stand-in array exposing only ndim / shape / len() with a symbolic shape:
rank r in 0..4, dims d0..d3 in 0..6.
"""
import magpylib as magpy
from magpylib._src import input_checks as IC
from magpylib._src.exceptions import MagpylibBadUserInput

_real_check = IC.check_array_shape
_captured = {}


def _capture(label, setter):
    rec = []

    def spy(inp, dims, shape_m1, length=None, msg=""):
        rec.append({"dims": tuple(dims), "shape_m1": shape_m1, "length": length})
        return _real_check(inp, dims=dims, shape_m1=shape_m1, length=length, msg=msg)

    IC.check_array_shape = spy
    try:
        setter()
    finally:
        IC.check_array_shape = _real_check
    _captured[label] = rec[0] if rec else None


_cub = magpy.magnet.Cuboid(dimension=(1, 2, 3), polarization=(1, 2, 3))
_cyl = magpy.magnet.Cylinder(dimension=(1, 2), polarization=(1, 2, 3))
_seg = magpy.magnet.CylinderSegment(dimension=(1, 2, 1, 0, 90), polarization=(1, 2, 3))
_tet = magpy.magnet.Tetrahedron(vertices=[(0, 0, 0), (1, 0, 0), (0, 1, 0), (0, 0, 1)], polarization=(1, 2, 3))
_tri = magpy.misc.Triangle(vertices=[(0, 0, 0), (1, 0, 0), (0, 1, 0)], polarization=(1, 2, 3))
_pol = magpy.current.Polyline(vertices=[(0, 0, 0), (1, 0, 0)], current=1)
_dip = magpy.misc.Dipole(moment=(1, 2, 3))
_sen = magpy.Sensor()

_capture("Cuboid.dimension", lambda: setattr(_cub, "dimension", (1, 2, 3)))
_capture("Cylinder.dimension", lambda: setattr(_cyl, "dimension", (1, 2)))
_capture("CylinderSegment.dimension", lambda: setattr(_seg, "dimension", (1, 2, 1, 0, 90)))
_capture("polarization", lambda: setattr(_cub, "polarization", (1, 2, 3)))
_capture("magnetization", lambda: setattr(_cub, "magnetization", (1e6, 2e6, 3e6)))
_capture("Dipole.moment", lambda: setattr(_dip, "moment", (1, 2, 3)))
_capture("Tetrahedron.vertices", lambda: setattr(_tet, "vertices", [(0, 0, 0), (1, 0, 0), (0, 1, 0), (0, 0, 1)]))
_capture("Triangle.vertices", lambda: setattr(_tri, "vertices", [(0, 0, 0), (1, 0, 0), (0, 1, 0)]))
_capture("Polyline.vertices", lambda: setattr(_pol, "vertices", [(0, 0, 0), (1, 0, 0)]))
_capture("Sensor.pixel", lambda: setattr(_sen, "pixel", [(0, 0, 0), (1, 0, 0)]))
_capture("position", lambda: setattr(_sen, "position", (1, 2, 3)))
_capture("move.displacement", lambda: _sen.move((0, 0, 0)))


class Arr:
    """stand-in exposing only what check_array_shape reads"""

    def __init__(self, shape):
        self.shape = shape
        self.ndim = len(shape)

    def __len__(self):
        if not self.shape:
            raise TypeError("len() of unsized object")
        return self.shape[0]


def _shape(r: int, d0: int, d1: int, d2: int, d3: int):
    return (d0, d1, d2, d3)[:r]


def _accepts(label, shape) -> bool:
    cfg = _captured[label]
    try:
        _real_check(Arr(shape), dims=cfg["dims"], shape_m1=cfg["shape_m1"], length=cfg["length"], msg="x")
        return True
    except MagpylibBadUserInput:
        return False


def _vec(label, n, r, d0, d1, d2, d3) -> bool:
    sh = _shape(r, d0, d1, d2, d3)
    return _accepts(label, sh) == (sh == (n,))


def h_cuboid_dimension(r: int, d0: int, d1: int, d2: int, d3: int) -> bool:
    """
    pre: 0 <= r <= 4 and 0 <= d0 <= 6 and 0 <= d1 <= 6 and 0 <= d2 <= 6 and 0 <= d3 <= 6
    post: _
    """
    return _vec("Cuboid.dimension", 3, r, d0, d1, d2, d3)


def h_cylinder_dimension(r: int, d0: int, d1: int, d2: int, d3: int) -> bool:
    """
    pre: 0 <= r <= 4 and 0 <= d0 <= 6 and 0 <= d1 <= 6 and 0 <= d2 <= 6 and 0 <= d3 <= 6
    post: _
    """
    return _vec("Cylinder.dimension", 2, r, d0, d1, d2, d3)


def h_cylseg_dimension(r: int, d0: int, d1: int, d2: int, d3: int) -> bool:
    """
    pre: 0 <= r <= 4 and 0 <= d0 <= 6 and 0 <= d1 <= 6 and 0 <= d2 <= 6 and 0 <= d3 <= 6
    post: _
    """
    return _vec("CylinderSegment.dimension", 5, r, d0, d1, d2, d3)


def h_polarization(r: int, d0: int, d1: int, d2: int, d3: int) -> bool:
    """
    pre: 0 <= r <= 4 and 0 <= d0 <= 6 and 0 <= d1 <= 6 and 0 <= d2 <= 6 and 0 <= d3 <= 6
    post: _
    """
    return _vec("polarization", 3, r, d0, d1, d2, d3) and _vec("magnetization", 3, r, d0, d1, d2, d3) and _vec("Dipole.moment", 3, r, d0, d1, d2, d3)


def h_tetrahedron_vertices(r: int, d0: int, d1: int, d2: int, d3: int) -> bool:
    """
    pre: 0 <= r <= 4 and 0 <= d0 <= 6 and 0 <= d1 <= 6 and 0 <= d2 <= 6 and 0 <= d3 <= 6
    post: _
    """
    sh = _shape(r, d0, d1, d2, d3)
    return _accepts("Tetrahedron.vertices", sh) == (sh == (4, 3))


def h_triangle_vertices(r: int, d0: int, d1: int, d2: int, d3: int) -> bool:
    """
    pre: 0 <= r <= 4 and 0 <= d0 <= 6 and 0 <= d1 <= 6 and 0 <= d2 <= 6 and 0 <= d3 <= 6
    post: _
    """
    sh = _shape(r, d0, d1, d2, d3)
    return _accepts("Triangle.vertices", sh) == (sh == (3, 3))


def h_polyline_vertices(r: int, d0: int, d1: int, d2: int, d3: int) -> bool:
    """
    pre: 0 <= r <= 4 and 0 <= d0 <= 6 and 0 <= d1 <= 6 and 0 <= d2 <= 6 and 0 <= d3 <= 6
    post: _
    """
    sh = _shape(r, d0, d1, d2, d3)
    # array-shape stage only: (n,3); the n >= 2 rule is decided in the E2 part
    return _accepts("Polyline.vertices", sh) == (len(sh) == 2 and sh[1] == 3)


def h_sensor_pixel(r: int, d0: int, d1: int, d2: int, d3: int) -> bool:
    """
    pre: 0 <= r <= 4 and 0 <= d0 <= 6 and 0 <= d1 <= 6 and 0 <= d2 <= 6 and 0 <= d3 <= 6
    post: _
    """
    sh = _shape(r, d0, d1, d2, d3)
    return _accepts("Sensor.pixel", sh) == (len(sh) >= 1 and sh[-1] == 3)


def h_position(r: int, d0: int, d1: int, d2: int, d3: int) -> bool:
    """
    pre: 0 <= r <= 4 and 0 <= d0 <= 6 and 0 <= d1 <= 6 and 0 <= d2 <= 6 and 0 <= d3 <= 6
    post: _
    """
    sh = _shape(r, d0, d1, d2, d3)
    doc = (len(sh) == 1 and sh[0] == 3) or (len(sh) == 2 and sh[1] == 3)
    return _accepts("position", sh) == doc and _accepts("move.displacement", sh) == doc


def twin_some_shape_accepted(r: int, d0: int, d1: int, d2: int, d3: int) -> bool:
    """
    pre: 0 <= r <= 4 and 0 <= d0 <= 6 and 0 <= d1 <= 6 and 0 <= d2 <= 6 and 0 <= d3 <= 6
    post: _
    """
    sh = _shape(r, d0, d1, d2, d3)
    return not (_accepts("Tetrahedron.vertices", sh) and _accepts("Sensor.pixel", sh))


# ---------------------------------------------------------------------------- CustomSource.field_func: what the callable returns per field
import numpy as _np

_KINDS = ("none", "ok", "scalar", "list", "wrong-shape", "wrong-rank")


def _ret(kind, obs):
    if kind == "none":
        return None
    if kind == "ok":
        return _np.zeros((len(obs), 3))
    if kind == "scalar":
        return 1.0
    if kind == "list":
        return [[0.0, 0.0, 0.0]] * len(obs)
    if kind == "wrong-shape":
        return _np.zeros((len(obs), 2))
    return _np.zeros((len(obs), 3, 1))


def _kind(i):
    for j in range(len(_KINDS)):
        if i == j:
            return _KINDS[j]
    return _KINDS[-1]


def h_field_func_returns(kb: int, kh: int, via_setter: bool) -> bool:
    """
    pre: 0 <= kb <= 5 and 0 <= kh <= 5
    post: _
    """
    # a field function is accepted iff, for B AND for H, it returns None ("field not available") or an ndarray of the observers' shape;
    # anything else is rejected at assignment - identically through constructor and setter - and leaves the previous function in place
    kinds = {"B": _kind(kb), "H": _kind(kh)}

    def f(field, observers):
        return _ret(kinds[field], observers)

    good = all(k in ("none", "ok") for k in kinds.values())
    src = magpy.misc.CustomSource()
    try:
        if via_setter:
            src.field_func = f
        else:
            src = magpy.misc.CustomSource(field_func=f)
        accepted = True
    except MagpylibBadUserInput:
        accepted = False
    if accepted != good:
        return False
    return (src.field_func is f) if accepted else (src.field_func is None)


def twin_field_func_returns(kb: int, kh: int) -> bool:
    """
    pre: 0 <= kb <= 5 and 0 <= kh <= 5
    post: _
    """
    kinds = {"B": _kind(kb), "H": _kind(kh)}

    def f(field, observers):
        return _ret(kinds[field], observers)

    try:
        magpy.misc.CustomSource(field_func=f)
    except MagpylibBadUserInput:
        return True
    return False  # some combination is accepted
