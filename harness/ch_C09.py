"""C09 (E1 part): CrossHair on the integer padding arithmetic of move/rotate, unbounded ints."""
from . import chlib

PROPERTY = "C09"
FILE = "harness/chx_C09.py"
FUNCTIONS = [
    "magpylib._src.obj_classes.class_BaseTransform:path_padding_param",
    "magpylib._src.obj_classes.class_BaseGeo:pad_slice_path",
    "magpylib._src.input_checks:check_start_type",
]
BOUNDS = ["path_padding_param: all integers lenop, lenip >= 1 and all integer start (unbounded) and 'auto'; pad_slice_path lengths 1..6"]
CUTS = []
ASSUMPTIONS = ["CrossHair 'Confirmed over all paths' = every path explored within the per-condition timeout with the z3 back end"]
NOT_DECIDED = []


def cases(tier, seed):
    return chlib.make_cases(FILE, tier, timeouts=(40, 240))


def run_case(case, info):
    info = dict(info, pid=PROPERTY)
    return chlib.run_case(case, info, "harness.chx_C09")


def replay(spec):
    return chlib.replay_call(spec)
