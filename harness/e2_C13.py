"""C13  a body gives the same field however it is represented (decidable part).

Decided for all real inputs: Sphere (outside) == Dipole with moment M*V; BHJM_cylinder_segment_internal routes full-angle segments to
the Cylinder kernel with the right dimensions and subtracts the inner cylinder iff r1 != 0; Tetrahedron == the closed set of its
four OUTWARD Triangle sheets (+J inside) for both chiralities of the vertex order; TriangularMesh == sum of Triangle sheets over its
faces (equal and ragged face counts).
"""
import importlib

import numpy as np
import z3

from symnum import CTX, S, SymArray, install, oarr, symarr, sym, toz, dof, ufcall, explore
from .common import Case, neq_any, rel_close
from .wrappers import WRAPPERS, apply_cuts, tetra_mesh, UNIT_TETRA, _det3

PROPERTY = "C13"
FUNCTIONS = [
    "magpylib._src.fields.field_BH_sphere:BHJM_magnet_sphere",
    "magpylib._src.fields.field_BH_dipole:BHJM_dipole",
    "magpylib._src.fields.field_BH_cylinder_segment:BHJM_cylinder_segment_internal",
    "magpylib._src.fields.field_BH_cylinder:BHJM_magnet_cylinder",
    "magpylib._src.fields.field_BH_tetrahedron:BHJM_magnet_tetrahedron",
    "magpylib._src.fields.field_BH_tetrahedron:check_chirality",
    "magpylib._src.fields.field_BH_triangularmesh:BHJM_magnet_trimesh",
    "magpylib._src.fields.field_BH_triangle:BHJM_triangle",
]
BOUNDS = ["1 row (TriangularMesh: 2 rows with equal and with ragged face counts); all real observers / dimensions / polarizations; tetrahedron vertices fully symbolic (12 reals)"]
CUTS = ["triangle_Bfield, cel, ellipe, ellipk uninterpreted (same applications on both sides); TriangularMesh inside test = uninterpreted predicate"]
ASSUMPTIONS = ["real arithmetic", "the exported mu_0 (scipy.constants)"]
NOT_DECIDED = [
    "Cuboid = its triangular mesh = its tetrahedra, Cylinder = sum of angular/radial/axial segments, cut-plane partitions, Polyline -> Circle: each equates two "
    "different transcendental closed forms (atan2/log vs solid angle, elliptic vs elliptic) or is a limit; not provable under the sound abstraction",
    "to_TriangleCollection / from_triangles / from_mesh / from_ConvexHull (np.unique / ConvexHull on symbolic vertices are not executable)",
]


def cases(tier, seed):
    return [{"id": k, "kind": k, "weight": 2} for k in ("sphere-dipole", "segment-routing", "tetra-sheets", "trimesh-sum-equal", "trimesh-sum-ragged")]


def run_case(case, info):
    C = Case(case, info)
    {"sphere-dipole": _sphere_dipole, "segment-routing": _routing, "tetra-sheets": _tetra, "trimesh-sum-equal": _trimesh, "trimesh-sum-ragged": _trimesh}[case["kind"]](C)
    return C.result()


def _sphere_dipole(C):
    from magpylib._src.fields import field_BH_sphere as SP, field_BH_dipole as DP

    obs, dia, pol = symarr("observers", (1, 3)), symarr("diameter", (1,)), symarr("polarization", (1, 3))
    CTX.pre = [toz(dia[0]) > 0]
    MU0 = toz(SP.MU0)
    PI = toz(float(np.pi))
    inputs = list(obs.ravel()) + list(dia) + list(pol.ravel())

    def run():
        out = {}
        for f in "BH":
            a = SP.BHJM_magnet_sphere(field=f, observers=obs.copy(), diameter=dia.copy(), polarization=pol.copy())
            vol = dia * dia * dia * S(toz(float(np.pi))) / 6  # exact rational arithmetic with the double nearest to pi, as in the code
            mom = (pol.T * vol / SP.MU0).T
            b = DP.BHJM_dipole(field=f, observers=obs.copy(), moment=mom)
            out[f] = (a, b)
        return out

    def on_path(p):
        C.paths += 1
        if p.status != "ok":
            C.note_inconclusive(f"p{C.paths}", f"aborted: {p.out}")
            return
        o = [toz(x) for x in obs.ravel()]
        R = toz(dia[0]) / 2
        outside = o[0] * o[0] + o[1] * o[1] + o[2] * o[2] > R * R
        for f in "BH":
            a, b = p.out[f]
            defined = [dof(x) for arr in (a, b) for x in np.asarray(arr, dtype=object).ravel()]

            def on_model(env, f=f):
                return {"key": f"C13|sphere==dipole|{f}", "replay": {"kind": "sphere-dipole", "field": f, "observers": [[env.get(f"observers_0_{k}", 0.0) for k in range(3)]],
                                                                      "diameter": [env.get("diameter_0", 1.0)], "polarization": [[env.get(f"polarization_0_{k}", 0.0) for k in range(3)]]}}

            C.oblige(f"p{C.paths}.{f}.sphere(outside)==dipole(M*V)", p.pc + defined + [outside], neq_any(a, b), on_model=on_model, inputs=inputs, key=f"C13|sphere==dipole|{f}",
                     sample="BHJM_magnet_sphere outside == BHJM_dipole(moment = polarization * pi/6 D^3 / mu_0) for all reals")

    paths = explore(run, max_paths=50, on_path=on_path, seeds=C.seed_envs(inputs, n=2))
    C.decisions += sum(len(p.decisions) for p in paths)


def _routing(C):
    from magpylib._src.fields import field_BH_cylinder_segment as SG, field_BH_cylinder as CY

    apply_cuts(["cel", "ellipe", "ellipk", "segH"])
    obs, pol = symarr("observers", (1, 3)), symarr("polarization", (1, 3))
    r1, r2, h, p1 = sym("r1"), sym("r2"), sym("h"), sym("phi1")
    CTX.pre = [r1.z >= 0, r1.z < r2.z, h.z > 0]
    inputs = list(obs.ravel()) + list(pol.ravel()) + [r1, r2, h, p1]
    dim = oarr(np.array([[r1, r2, h, p1, p1 + 360]], dtype=object))

    def run():
        out = {}
        for f in "BHJ":
            a = SG.BHJM_cylinder_segment_internal(field=f, observers=obs.copy(), polarization=pol.copy(), dimension=dim.copy())
            outer = CY.BHJM_magnet_cylinder(field=f, observers=obs.copy(), polarization=pol.copy(), dimension=oarr(np.array([[2 * r2, h]], dtype=object)))
            inner = CY.BHJM_magnet_cylinder(field=f, observers=obs.copy(), polarization=pol.copy(), dimension=oarr(np.array([[2 * r1, h]], dtype=object)))
            out[f] = (a, outer, inner)
        return out

    def on_path(p):
        C.paths += 1
        if p.status != "ok":
            C.note_inconclusive(f"p{C.paths}", f"aborted: {p.out}")
            return
        for f in "BHJ":
            a, outer, inner = p.out[f]
            defined = [dof(x) for arr in (a, outer) for x in np.asarray(arr, dtype=object).ravel()]
            solid = neq_any(a, outer)
            hollow = neq_any(a, np.asarray(outer, dtype=object) - np.asarray(inner, dtype=object))
            definedi = [dof(x) for x in np.asarray(inner, dtype=object).ravel()]

            def on_model(env, f=f):
                return {"key": f"C13|full-angle-segment==cylinder|{f}",
                        "replay": {"kind": "routing", "field": f, "observers": [[env.get(f"observers_0_{k}", 0.0) for k in range(3)]], "polarization": [[env.get(f"polarization_0_{k}", 0.0) for k in range(3)]],
                                   "dim": [env.get("r1", 0.0), env.get("r2", 1.0), env.get("h", 1.0), env.get("phi1", 0.0)]}}

            C.oblige(f"p{C.paths}.{f}.r1=0:segment==cylinder", p.pc + defined + [r1.z == 0], solid, on_model=on_model, inputs=inputs, key=f"C13|full-angle-segment==cylinder|{f}",
                     sample="full-angle CylinderSegment with r1=0 == Cylinder(2 r2, h), term identical (same leaf applications)")
            C.oblige(f"p{C.paths}.{f}.r1>0:segment==outer-inner", p.pc + defined + definedi + [r1.z > 0], hollow, on_model=on_model, inputs=inputs, key=f"C13|full-angle-segment==cylinder|{f}")

    paths = explore(run, max_paths=200 if C.tier == "quick" else 2000, on_path=on_path, seeds=C.seed_envs(inputs, n=2))
    C.decisions += sum(len(p.decisions) for p in paths)
    if explore.truncated:
        C.note_inconclusive("path-budget", "path budget hit")


def _tetra(C):
    """the sheets handed to the triangle kernel are exactly the four faces, each oriented outwards, for all (non-degenerate) vertices"""
    from magpylib._src.fields import field_BH_tetrahedron as TE

    apply_cuts(["triB"])
    obs, pol, V = symarr("observers", (1, 3)), symarr("polarization", (1, 3)), symarr("vertices", (1, 4, 3))
    v = [[toz(V[0, k, c]) for c in range(3)] for k in range(4)]
    e = [[v[k][c] - v[0][c] for c in range(3)] for k in (1, 2, 3)]
    CTX.pre = [_det3(*e) != 0]
    inputs = list(obs.ravel()) + list(pol.ravel()) + list(V.ravel())
    calls = []
    orig = TE.BHJM_triangle

    def spy(field, observers, vertices, polarization):
        calls.append((field, np.asarray(vertices, dtype=object).copy(), np.asarray(observers, dtype=object).copy(), np.asarray(polarization, dtype=object).copy()))
        return orig(field=field, observers=observers, vertices=vertices, polarization=polarization)

    def run():
        calls.clear()
        TE.BHJM_triangle = spy
        try:
            H = TE.BHJM_magnet_tetrahedron(field="H", observers=obs.copy(), vertices=V.copy(), polarization=pol.copy(), in_out="auto")
        finally:
            TE.BHJM_triangle = orig
        return H, list(calls)

    def on_path(p):
        C.paths += 1
        if p.status != "ok":
            C.note_inconclusive(f"p{C.paths}", f"aborted: {p.out}")
            return
        H, cl = p.out

        def on_model(env):
            return {"key": "C13|tetrahedron==outward-sheets", "replay": {"kind": "tetra", "vertices": [[[env.get(f"vertices_0_{k}_{c}", 0.0) for c in range(3)] for k in range(4)]],
                                                                         "observers": [[env.get(f"observers_0_{k}", 0.0) for k in range(3)]], "polarization": [[env.get(f"polarization_0_{k}", 0.0) for k in range(3)]]}}

        if len(cl) != 1 or cl[0][1].shape != (4, 3, 3):
            C.obligations.append({"name": f"p{C.paths}.four-sheets", "status": "sat", "note": f"triangle kernel called with {[c[1].shape for c in cl]}"})
            C.oblige(f"p{C.paths}.witness", p.pc, z3.BoolVal(True), on_model=on_model, inputs=inputs)
            return
        tri = cl[0][1]
        # each sheet: its three vertices are three distinct tetrahedron vertices (one of the 4 faces, all faces covered) and the normal points away from the fourth
        terms = []
        faces_idx = []
        for fi in range(4):
            # the code only permutes vertices: identify which vertex each sheet corner is (syntactic identity of the terms)
            idx = []
            for a in range(3):
                k = [kk for kk in range(4) if all(z3.simplify(toz(tri[fi, a, c])).eq(z3.simplify(v[kk][c])) for c in range(3))]
                idx.append(k[0] if len(k) == 1 else None)
            if None in idx or len(set(idx)) != 3:
                terms.append(z3.BoolVal(True))  # not a face of the tetrahedron
                continue
            a, b, c_ = idx
            d = ({0, 1, 2, 3} - set(idx)).pop()
            faces_idx.append(tuple(sorted(idx)))
            n_dot = _det3([v[b][k] - v[a][k] for k in range(3)], [v[c_][k] - v[a][k] for k in range(3)], [v[d][k] - v[a][k] for k in range(3)])
            terms.append(z3.Not(n_dot < 0))
        if len(set(faces_idx)) != 4:
            terms.append(z3.BoolVal(True))  # the four sheets are not four different faces
        C.oblige(f"p{C.paths}.sheets-are-outward-faces", p.pc, z3.Or(*terms), on_model=on_model, inputs=inputs, key="C13|tetrahedron==outward-sheets",
                 sample="the 4 sheets passed to the triangle kernel are faces of the tetrahedron whose normal (v1-v0)x(v2-v0) points away from the opposite vertex, for all vertices of either chirality")
        # distinct faces: the opposite vertices of the four sheets are pairwise different  (sum of the sheet vertex sets covers each vertex 3 times)
        tot = [sum(toz(tri[fi, a, c]) for fi in range(4) for a in range(3)) for c in range(3)]
        want = [3 * sum(v[k][c] for k in range(4)) for c in range(3)]
        C.oblige(f"p{C.paths}.each-vertex-in-three-sheets", p.pc, z3.Or(*[tot[c] != want[c] for c in range(3)]), on_model=on_model, inputs=inputs, key="C13|tetrahedron==outward-sheets")
        # H is the plain sum of the four sheet fields
        sheets = orig(field="H", observers=oarr(cl[0][2]), vertices=oarr(tri), polarization=oarr(cl[0][3]))
        ssum = sheets[0] + sheets[1] + sheets[2] + sheets[3]
        C.oblige(f"p{C.paths}.H==sum-of-sheets", p.pc, neq_any(H[0], ssum), on_model=on_model, inputs=inputs, key="C13|tetrahedron==outward-sheets")

    paths = explore(run, max_paths=20, on_path=on_path, seeds=C.seed_envs(inputs, n=2))
    C.decisions += sum(len(p.decisions) for p in paths)
    dets = {tuple(p.decisions) for p in paths}
    if len(paths) < 2:
        C.vacuous.append("only one chirality explored")


def _trimesh(C):
    from magpylib._src.fields import field_BH_triangularmesh as TM, field_BH_triangle as TR

    apply_cuts(["triB", "insideTM"])
    ragged = C.case["kind"].endswith("ragged")
    A_ = tetra_mesh(UNIT_TETRA)
    B_ = np.concatenate([tetra_mesh(UNIT_TETRA, shift=(3, 0, 0), scale=2.0), tetra_mesh(UNIT_TETRA, shift=(0, 5, 0))]) if ragged else tetra_mesh(UNIT_TETRA, shift=(3, 0, 0), scale=2.0)
    obs, pol = symarr("observers", (2, 3)), symarr("polarization", (2, 3))
    inputs = list(obs.ravel()) + list(pol.ravel())
    if ragged:
        mesh = np.empty(2, dtype=object)
        mesh[0], mesh[1] = oarr(A_), oarr(B_)
    else:
        mesh = oarr(np.array([A_, B_]))

    def run():
        return {f: TM.BHJM_magnet_trimesh(field=f, observers=obs.copy(), mesh=mesh, polarization=pol.copy(), in_out="auto") for f in "BH"}

    def on_path(p):
        C.paths += 1
        if p.status != "ok":
            C.note_inconclusive(f"p{C.paths}", f"aborted: {p.out}")
            return
        H = np.asarray(p.out["H"], dtype=object)
        B = np.asarray(p.out["B"], dtype=object)
        for i, msh in enumerate((A_, B_)):
            nf = len(msh)
            sheets = TR.BHJM_triangle(field="H", observers=oarr(np.tile(np.asarray(obs[i], dtype=object), (nf, 1))), vertices=oarr(msh),
                                      polarization=oarr(np.tile(np.asarray(pol[i], dtype=object), (nf, 1))))
            tot = sheets[0]
            for k in range(1, nf):
                tot = tot + sheets[k]

            def on_model(env, i=i):
                return {"key": "C13|trimesh==sum-of-sheets", "replay": {"kind": "trimesh", "ragged": ragged, "observers": [[env.get(f"observers_{r}_{k}", 0.0) for k in range(3)] for r in range(2)],
                                                                        "polarization": [[env.get(f"polarization_{r}_{k}", 0.0) for k in range(3)] for r in range(2)]}}

            C.oblige(f"p{C.paths}.row{i}.H==sum-over-faces", p.pc, neq_any(H[i], tot), on_model=on_model, inputs=inputs, key="C13|trimesh==sum-of-sheets",
                     sample=f"TriangularMesh H (row {i}, {'ragged' if ragged else 'equal'} face counts) == sum of BHJM_triangle over its {nf} faces")
            # B - mu0 H is either 0 or the polarization (inside), nothing else
            MU0 = toz(TM.MU0)
            diff = [toz(B[i, c]) - MU0 * toz(H[i, c]) for c in range(3)]
            zero = z3.And(*[d == 0 for d in diff])
            isJ = z3.And(*[d == toz(pol[i, c]) for c, d in enumerate(diff)])
            C.oblige(f"p{C.paths}.row{i}.B-mu0H in (0,J)", p.pc, z3.Not(z3.Or(zero, isJ)), on_model=on_model, inputs=inputs, key="C13|trimesh==sum-of-sheets")

    paths = explore(run, max_paths=40, on_path=on_path)
    C.decisions += sum(len(p.decisions) for p in paths)


# ----------------------------------------------------------------------------- replay
def replay(spec):
    import magpylib as m
    from magpylib._src.fields.field_BH_sphere import BHJM_magnet_sphere
    from magpylib._src.fields.field_BH_dipole import BHJM_dipole
    from magpylib._src.fields.field_BH_cylinder_segment import BHJM_cylinder_segment_internal
    from magpylib._src.fields.field_BH_cylinder import BHJM_magnet_cylinder
    from magpylib._src.fields.field_BH_tetrahedron import BHJM_magnet_tetrahedron
    from magpylib._src.fields.field_BH_triangle import BHJM_triangle
    from magpylib._src.fields.field_BH_triangularmesh import BHJM_magnet_trimesh

    k = spec["kind"]
    f = spec.get("field", "H")
    g = lambda x: np.array(x, dtype=float)
    if k == "sphere-dipole":
        o, d, p = g(spec["observers"]), g(spec["diameter"]), g(spec["polarization"])
        if np.linalg.norm(o[0]) <= abs(d[0]) / 2:
            return False, "observer not outside"
        a = BHJM_magnet_sphere(field=f, observers=o, diameter=d, polarization=p)
        b = BHJM_dipole(field=f, observers=o, moment=(p.T * (np.pi / 6 * d**3) / m.mu_0).T)
        return not rel_close(a, b, 1e-9, 1e-300), f"sphere {f}={a.tolist()} dipole(M*V) {f}={b.tolist()} at {o.tolist()}, D={d.tolist()}, J={p.tolist()}"
    if k == "routing":
        o, p = g(spec["observers"]), g(spec["polarization"])
        r1, r2, h, p1 = [float(x or 0.0) for x in spec["dim"]]
        a = BHJM_cylinder_segment_internal(field=f, observers=o, polarization=p, dimension=g([[r1, r2, h, p1, p1 + 360]]))
        b = BHJM_magnet_cylinder(field=f, observers=o, polarization=p, dimension=g([[2 * r2, h]]))
        if r1 != 0:
            b = b - BHJM_magnet_cylinder(field=f, observers=o, polarization=p, dimension=g([[2 * r1, h]]))
        if not (np.all(np.isfinite(a)) and np.all(np.isfinite(b))):
            return False, "non-finite"
        return not rel_close(a, b, 1e-9, 1e-300), f"full-angle segment {f}={a.tolist()} vs cylinder(s) {b.tolist()} dim={spec['dim']} obs={o.tolist()}"
    if k == "tetra":
        V, o, p = g(spec["vertices"]), g(spec["observers"]), g(spec["polarization"])
        if abs(np.linalg.det((V[0, 1:] - V[0, 0]))) < 1e-12:
            return False, "degenerate"
        if not np.any(p):  # the orientation obligations do not constrain the polarization / observer: use generic ones
            p = np.array([[0.3, 0.2, 1.0]])
            o = V[0].mean(axis=0)[None] + np.array([[2.3, -1.7, 3.1]])
        H = BHJM_magnet_tetrahedron(field="H", observers=o, vertices=V.copy(), polarization=p, in_out="auto")
        v = V[0]
        tot = np.zeros(3)
        for a, b, c, d in ((0, 1, 2, 3), (0, 1, 3, 2), (0, 2, 3, 1), (1, 2, 3, 0)):
            tri = np.array([v[a], v[b], v[c]])
            if np.dot(np.cross(tri[1] - tri[0], tri[2] - tri[0]), v[d] - tri[0]) > 0:
                tri = tri[[0, 2, 1]]
            tot += BHJM_triangle(field="H", observers=o, vertices=tri[None], polarization=p)[0]
        return not rel_close(H[0], tot, 1e-9, 1e-300), f"tetrahedron H={H[0].tolist()} but sum of its four outward sheets={tot.tolist()} (vertices {v.tolist()})"
    if k == "trimesh":
        A_ = tetra_mesh(UNIT_TETRA)
        B_ = np.concatenate([tetra_mesh(UNIT_TETRA, shift=(3, 0, 0), scale=2.0), tetra_mesh(UNIT_TETRA, shift=(0, 5, 0))]) if spec["ragged"] else tetra_mesh(UNIT_TETRA, shift=(3, 0, 0), scale=2.0)
        o, p = g(spec["observers"]), g(spec["polarization"])
        if spec["ragged"]:
            mesh = np.empty(2, dtype=object)
            mesh[0], mesh[1] = A_, B_
        else:
            mesh = np.array([A_, B_])
        H = np.asarray(BHJM_magnet_trimesh(field="H", observers=o, mesh=mesh, polarization=p, in_out="auto"), dtype=float)
        for i, msh in enumerate((A_, B_)):
            tot = BHJM_triangle(field="H", observers=np.tile(o[i], (len(msh), 1)), vertices=msh, polarization=np.tile(p[i], (len(msh), 1))).sum(axis=0)
            if not rel_close(H[i], tot, 1e-9, 1e-300):
                return True, f"TriangularMesh row {i}: H={H[i].tolist()} but sum over faces={tot.tolist()}"
        return False, "agree"
    raise ValueError(k)
