"""C08  field computation never changes objects or inputs, even when it fails.

The fault schedule is symbolic data: every invocation of a custom field function consults fresh solver booleans
(raise / return None / return wrong shape / normal); the path driver forks on them, so every exit point of getBH_level2
between path tiling and reset is explored.  After every path (returning or raising) the state of every object must be
term-identical to the state before the call, for all real poses.
"""
import numpy as np
import z3

from symnum import CTX, S, SB, SymArray, SymRot, install, oarr, symarr, toz, ufcall, explore
from .common import Case, neq_any, rel_close
from . import level2 as L2

PROPERTY = "C08"
LEVEL = "fault_enumeration"
FUNCTIONS = [
    "magpylib._src.fields.field_wrap_BH:getBH_level2",
    "magpylib._src.fields.field_wrap_BH:getBH_level1",
    "magpylib._src.fields.field_wrap_BH:get_src_dict",
    "magpylib._src.input_checks:check_format_input_observers",
    "magpylib._src.input_checks:check_format_pixel_agg",
    "magpylib._src.input_checks:check_getBH_output_type",
    "magpylib.core:magnet_cuboid_Bfield, magnet_sphere_Bfield, dipole_Hfield, current_polyline_Hfield, triangle_Bfield, current_circle_Hfield, magnet_cylinder_axial_Bfield",
    "magpylib._src.input_checks:check_dimensions",
    "magpylib._src.input_checks:check_excitations",
    "magpylib._src.utility:format_src_inputs",
]
BOUNDS = [
    "scenes from a committed list: <=3 sources (custom sources with faulting field functions, a class group of dipoles, a collection), "
    "1-2 sensors, path lengths in {1,2,3}, pixel layouts {None,(3,),(2,3)}",
    "fault kinds per field-function invocation: raise, return None, return wrong shape, normal (symbolic booleans, all schedules)",
    "functional interface with n=2 per-instance caller arrays for Tetrahedron (one of negative chirality), Cuboid, Polyline, TriangularMesh, Dipole",
    "argument faults: invalid pixel_agg, invalid output, incompatible pixel shapes, missing excitation, unsupported field of a custom source",
    "exported core kernels called directly with 2-row caller arrays: magnet_cuboid_Bfield, magnet_sphere_Bfield, dipole_Hfield, current_polyline_Hfield and "
    "triangle_Bfield (concrete segments / triangles), current_circle_Hfield, magnet_cylinder_axial_Bfield (elliptic kernels cut)",
]
CUTS = ["local field functions are uninterpreted; scipy Rotation replaced by SymRot"]
ASSUMPTIONS = ["real arithmetic; unit input quaternions"]
BOUNDS.append(
    "objects of every registered class (Tetrahedron with left-handed vertex order, TriangularMesh with the status checks skipped) through src.getX(obs) "
    "for X in B,H,J,M: symbolic parameters / pose / one observer; every attribute in the object's __dict__ is compared before / after (arrays term by term, "
    "everything else by identity or ==); the same with committed doubles on the unpatched library for 1 and 3 observers, also after calls rejected for a bad argument")
NOT_DECIDED = ["style objects are compared by identity only (no style mutation is reachable from getBH_level2)", "output='dataframe' (pandas)"]


def faulty_field_func(tag, state):
    base = L2.uf_field_func(tag)

    def f(field, observers):
        obs = np.asarray(observers)
        if obs.dtype != object:
            return np.zeros(obs.shape)
        if state["armed"]:
            state["n"] += 1
            state.setdefault("per", {})
            state["per"][tag] = state["per"].get(tag, 0) + 1
            k = state["per"][tag]
            if bool(SB(z3.Bool(f"raise_{tag}_{k}"))):
                state["fired"].append(f"raise@{tag}#{k}")
                raise RuntimeError("user field function failed")
            if bool(SB(z3.Bool(f"none_{tag}_{k}"))):
                state["fired"].append(f"none@{tag}#{k}")
                return None
            if bool(SB(z3.Bool(f"shape_{tag}_{k}"))):
                state["fired"].append(f"shape@{tag}#{k}")
                return base(field, observers)[:-1]
        return base(field, observers)

    return f


def float_faulty(tag, plan):
    base = L2.generic_float_field(tag)
    cnt = {"n": 0}

    def f(field, observers):
        o = np.asarray(observers, dtype=float)
        if o.shape == (2, 3) and np.allclose(o, [[1, 2, 3], [4, 5, 6]]):
            return base(field, o)  # validate_field_func probe
        cnt["n"] += 1
        act = plan.get(f"{tag}#{cnt['n']}")
        if act == "raise":
            raise RuntimeError("user field function failed")
        if act == "none":
            return None
        if act == "shape":
            return base(field, o)[:-1]
        return base(field, o)

    return f


SCENES = {
    "two-custom": {"sources": [{"kind": "custom", "tag": "a", "path": 1}, {"kind": "custom", "tag": "b", "path": 3}],
                   "sensors": [{"path": 1, "pixel": None, "orient": "identity"}]},
    "custom-dipole-sensorpath": {"sources": [{"kind": "dipole", "tag": "d1", "path": 1}, {"kind": "custom", "tag": "a", "path": 2}],
                                 "sensors": [{"path": 3, "pixel": (3,), "orient": "sym"}]},
    "coll-and-custom": {"sources": [{"kind": "coll", "path": 1, "children": [{"kind": "custom", "tag": "a", "path": 1}, {"kind": "dipole", "tag": "d1", "path": 2}]},
                                    {"kind": "custom", "tag": "b", "path": 1}],
                        "sensors": [{"path": 1, "pixel": (2, 3), "orient": "identity"}, {"path": 2, "pixel": (2, 3), "orient": "identity"}]},
}
ARG_FAULTS = ["pixel_agg=bogus", "output=bogus", "pixel-shapes", "missing-moment", "unsupported-field", "field_func=None"]


CALLER = {
    # functional interface: parameter arrays supplied by the caller (n=2 instances); second tetrahedron has negative chirality
    "Tetrahedron": {"vertices": [[(0, 0, 0), (1, 0, 0), (0, 1, 0), (0, 0, 1)], [(0, 0, 0), (0, 1, 0), (1, 0, 0), (0, 0, 1)]], "polarization": "sym(2,3)"},
    "Cuboid": {"dimension": "sym+(2,3)", "polarization": "sym(2,3)"},
    "Polyline": {"vertices": [[(0, 0, 0), (1, 0, 0), (1, 2, 0)], [(0, 0, 1), (0, 3, 1), (4, 3, 1)]], "current": "sym(2,)"},
    "TriangularMesh": {"mesh": "tetra-meshes", "polarization": "sym(2,3)"},
    "Dipole": {"moment": "sym(2,3)"},
}


def cases(tier, seed):
    out = []
    for cls in CALLER:
        for f in ("B", "H", "J"):
            out.append({"id": f"caller-arrays-{cls}-{f}", "kind": "caller", "cls": cls, "field": f, "weight": 2})
    for fn in CORE:
        out.append({"id": f"core-arrays-{fn}", "kind": "core", "fn": fn, "weight": 2})
    for nm in SCENES:
        out.append({"id": f"faults-{nm}", "kind": "faults", "scene": nm, "weight": 5})
    for af in ARG_FAULTS:
        out.append({"id": f"argfault-{af}", "kind": "arg", "fault": af, "weight": 1})
    from .e2_C07 import CLASSES as _CL

    for cls in _CL:
        if cls in ("Cylinder", "CylinderSegment", "TriangularMesh", "Polyline"):  # many mask paths: one case per field
            for f in "BHJM":
                out.append({"id": f"objects-{cls}-{f}", "kind": "objects", "cls": cls, "fields": f, "weight": 4})
        else:
            out.append({"id": f"objects-{cls}", "kind": "objects", "cls": cls, "fields": "BHJM", "weight": 2})
    return out


def _state_violation(sc, snap):
    """returns (structural problems list, formula 'some value differs')"""
    probs = []
    terms = []
    for o in sc.all:
        ob = o.obj
        s = snap[o.name]
        pos = np.asarray(ob._position, dtype=object)
        quat = np.asarray(ob._orientation.as_quat(), dtype=object)
        if pos.shape != s["pos_copy"].shape:
            probs.append(f"{o.name}: position path length {s['pos_copy'].shape[0]} -> {pos.shape[0]}")
        elif quat.shape != s["quat"].shape:
            probs.append(f"{o.name}: orientation path length {s['quat'].shape[0]} -> {quat.shape[0]}")
        else:
            terms.append(neq_any(pos, s["pos_copy"]))
            terms.append(neq_any(quat, s["quat"]))
        if ob._parent is not s["parent"]:
            probs.append(f"{o.name}: parent changed")
        if s["children"] is not None and (len(ob._children) != len(s["children"]) or any(a is not b for a, b in zip(ob._children, s["children"]))):
            probs.append(f"{o.name}: children changed")
        if getattr(ob, "_style", None) is not s["style"]:
            probs.append(f"{o.name}: style object replaced")
        if s["pixel"] is not None:
            if getattr(ob, "_pixel", None) is not s["pixel"]:
                probs.append(f"{o.name}: pixel array replaced")
            else:
                terms.append(neq_any(ob._pixel, s["pixel_copy"]))
        if getattr(ob, "_moment", None) is not s["moment"]:
            probs.append(f"{o.name}: moment replaced")
        if getattr(ob, "_field_func", None) is not s["field_func"]:
            probs.append(f"{o.name}: field_func replaced")
    return probs, (z3.Or(*terms) if terms else z3.BoolVal(False))


# ----------------------------------------------------------------------------- real objects of every class: the whole __dict__ is unchanged
LEFT_TETRA = [(0, 0, 0), (0, 1, 0), (1, 0, 0), (0, 0, 1)]
_SIMPLE = (bool, int, float, str, type(None), tuple)


def _deep_snap(obj):
    snap = {}
    for k, v in vars(obj).items():
        if isinstance(v, np.ndarray):
            snap[k] = ("array", v, np.array(v, copy=True))
        elif hasattr(v, "as_quat"):
            snap[k] = ("rot", v, np.array(v.as_quat(), copy=True))
        elif isinstance(v, list):
            snap[k] = ("list", v, list(v))
        else:
            snap[k] = ("other", v, v)
    return snap


def _deep_diff(obj, snap, symbolic):
    """-> (structural problems, formulas 'this array entry differs')"""
    probs, terms = [], []
    now = vars(obj)
    if set(now) != set(snap):
        probs.append(f"attributes {sorted(set(now) ^ set(snap))} added / removed")
    for k, (kind, ref, cp) in snap.items():
        if k not in now:
            continue
        v = now[k]
        if kind in ("array", "rot"):
            a = np.asarray(v.as_quat() if kind == "rot" and hasattr(v, "as_quat") else v)
            if not isinstance(a, np.ndarray) or a.shape != cp.shape:
                probs.append(f"{k}: shape {cp.shape} -> {np.shape(a)}")
            elif a.dtype == object or cp.dtype == object:
                if symbolic:
                    terms.append((k, neq_any(a, cp)))
            elif a.dtype != cp.dtype or not np.array_equal(a, cp, equal_nan=a.dtype.kind == "f"):
                probs.append(f"{k}: values changed")
        elif kind == "list":
            if not isinstance(v, list) or len(v) != len(cp) or any(x is not y for x, y in zip(v, cp)):
                probs.append(f"{k}: list changed")
        elif isinstance(cp, _SIMPLE) or cp is None:
            if type(v) is not type(cp) or v != cp:
                probs.append(f"{k}: {cp!r} -> {v!r}")
        elif v is not cp:
            probs.append(f"{k}: object replaced")
    return probs, terms


def _objects_ctor(name, m):
    from .e2_C07 import _ctor

    if name == "Tetrahedron":
        return m.magnet.Tetrahedron(vertices=LEFT_TETRA, polarization=(0.1, 0.2, 0.3))
    return _ctor(name)


def _objects(C):
    import magpylib as m
    from .e2_C07 import CLASSES, RATIONAL_ROT, _install_params, _param_values, _pre
    from .wrappers import WRAPPERS, apply_cuts
    from symnum import symrot
    from fractions import Fraction

    name = C.case["cls"]
    apply_cuts(WRAPPERS[CLASSES[name][0]].cuts)
    vals, inputs = _param_values(name, True)
    if name == "Tetrahedron":
        vals["vertices"] = oarr(np.array(LEFT_TETRA, dtype=float))
    pos = symarr("pos", (3,))
    if name in RATIONAL_ROT:
        rot, unit = SymRot(oarr(np.array([S(toz(Fraction(k, 5))) for k in (1, 2, 2, 4)], dtype=object)), True), []
    else:
        rot, unit = symrot("rq")
    obs = symarr("obs", (1, 3))
    CTX.pre = _pre(name, vals) + unit
    inputs = inputs + list(pos) + list(obs.ravel())
    qg = [list(rot.q[0])]
    for f in C.case.get("fields", "BHJM"):
        def run(f=f):
            src = _objects_ctor(name, m)
            _install_params(src, name, {k: (v.copy() if hasattr(v, "copy") else v) for k, v in vals.items()})
            if name == "TriangularMesh":
                src._vertices = oarr(np.asarray(src._vertices, dtype=float))
            src._position = pos.reshape(1, 3).copy()
            src._orientation = SymRot(rot.q.copy(), False)
            src.style  # styles are created lazily on first access
            snap = _deep_snap(src)
            obs_in = obs.copy()
            try:
                getattr(src, "get" + f)(obs_in)
                how = "return"
            except Exception as e:  # noqa
                how = f"{type(e).__name__}: {str(e)[:80]}"
            probs, terms = _deep_diff(src, snap, True)
            terms.append(("caller observers", neq_any(obs_in, obs)))
            return how, probs, terms

        def on_path(p, f=f):
            C.paths += 1
            if p.status != "ok":
                C.note_inconclusive(f"{f}.p{C.paths}", f"aborted: {p.out}")
                return
            how, probs, terms = p.out
            rp = {"kind": "objects", "cls": name, "field": f}
            key = f"C08|objects|{name}|state-changed"
            if probs:
                C.oblige(f"{f}.p{C.paths}.state[{'; '.join(probs)[:120]}]", p.pc, z3.BoolVal(True), inputs=inputs, quat_groups=qg, key=key,
                         on_model=lambda env: {"key": key, "replay": dict(rp, env=env)})
                return
            C.oblige(f"{f}.p{C.paths}.state-unchanged({how.split(':')[0]})", p.pc, z3.Or(*[t for _, t in terms]), inputs=inputs, quat_groups=qg, key=key, nice=False,
                     on_model=lambda env: {"key": key, "replay": dict(rp, env=env)},
                     sample=f"{name}.get{f}(obs): every array in the object's __dict__ and the caller's observer array are term-identical afterwards, all other attributes identical")

        paths = explore(run, max_paths=16 if C.tier == "quick" else 300, on_path=on_path,
                        seeds=C.seed_envs(inputs + (list(rot.q.ravel()) if name not in RATIONAL_ROT else []), qg if name not in RATIONAL_ROT else (), n=1))
        C.decisions += sum(len(p.decisions) for p in paths)
        if explore.truncated:
            C.obligations.append({"name": f"{f}.path-budget", "status": "note", "note": "path budget hit: the remaining mask paths of the kernel were not explored (stated bound)"})
        C.concrete_trace(_replay_objects, {"kind": "objects", "cls": name, "field": f, "env": {}}, f"C08|objects|{name}|state-changed|concrete")


def _replay_objects(spec):
    import warnings

    import magpylib as m
    from .e2_C07 import CLASSES

    name, f = spec["cls"], spec["field"]
    env = spec.get("env") or {}
    g = lambda k, d: float(env[k]) if env.get(k) is not None else d
    msgs = []
    for nobs, npath in ((1, 1), (3, 1), (1, 2)):
        src = _objects_ctor(name, m)
        for pub, priv, shp, conc in CLASSES[name][1]:
            if priv is None or shp is None:
                continue
            try:
                if shp == ():
                    setattr(src, pub, g("par_" + pub, conc))
                else:
                    setattr(src, pub, [g(f"par_{pub}_{i}", conc[i]) for i in range(shp[0])])
            except Exception:  # noqa  (a model outside what the setter accepts: keep the constructor value)
                pass
        src.position = [g(f"pos_{i}", 0.3 * (i + 1)) for i in range(3)]
        q = np.array([g(f"rq_{i}", [0.2, 0.4, 0.4, 0.8][i]) for i in range(4)])
        if np.linalg.norm(q) > 0:
            from scipy.spatial.transform import Rotation as R

            src.orientation = R.from_quat(q / np.linalg.norm(q))
        if npath == 2:
            src.move([(0.1, 0.2, 0.3)])
        o0 = [g(f"obs_0_{i}", (0.2, 0.3, 0.4)[i]) for i in range(3)]
        obs = np.array([o0, (2.5, -1.5, 0.5), (0.1, 0.1, 5.0)][:nobs], dtype=float)
        sens = m.Sensor(pixel=obs.copy())
        src.style
        snap, snap_s = _deep_snap(src), _deep_snap(sens)
        calls = [("src.getX(obs)", lambda: getattr(src, "get" + f)(obs)), ("getX(src, sens)", lambda: getattr(m, "get" + f)(src, sens)),
                 ("getX(src, obs, output='bad')", lambda: getattr(m, "get" + f)(src, obs, output="bad")),
                 ("getX(src, sens, pixel_agg='bad')", lambda: getattr(m, "get" + f)(src, sens, pixel_agg="bad")),
                 ("getX(src, obs, in_out='bad')", lambda: getattr(m, "get" + f)(src, obs, in_out="bad")),
                 ("src.getX(obs) again", lambda: getattr(src, "get" + f)(obs))]
        obs_copy = obs.copy()
        first = None
        for label, fn in calls:
            with warnings.catch_warnings():
                warnings.simplefilter("ignore")
                try:
                    r = fn()
                    how = "return"
                except Exception as e:  # noqa
                    r, how = None, type(e).__name__
            probs, _ = _deep_diff(src, snap, False)
            probs += [f"sensor {x}" for x in _deep_diff(sens, snap_s, False)[0]]
            if not np.array_equal(obs, obs_copy):
                probs.append("caller's observer array changed")
            if label == "src.getX(obs)":
                first = r
            if label.endswith("again") and first is not None and (r is None or not np.array_equal(np.asarray(first), np.asarray(r), equal_nan=True)):
                probs.append("second call returns a different result")
            if probs:
                msgs.append(f"{name} ({nobs} observer(s), path {npath}) after {label.replace('X', f)} [{how}]: " + "; ".join(probs))
                break
    return bool(msgs), (" | ".join(msgs[:2]) or f"{name}: state unchanged by get{f} in doubles")


def run_case(case, info):
    C = Case(case, info)
    if case["kind"] == "faults":
        _faults(C)
    elif case["kind"] == "caller":
        _caller(C)
    elif case["kind"] == "core":
        _core(C)
    elif case["kind"] == "objects":
        _objects(C)
    else:
        _argfault(C)
    return C.result()


def _caller_args(cls, symbolic, env=None):
    from .wrappers import tetra_mesh, UNIT_TETRA

    rng = np.random.default_rng(9)
    args = {}
    pre = []
    for k, v in CALLER[cls].items():
        if v == "tetra-meshes":
            a = np.array([tetra_mesh(UNIT_TETRA), tetra_mesh(UNIT_TETRA, shift=(2, 0, 0), scale=1.5)])
            args[k] = oarr(a) if symbolic else a
        elif isinstance(v, str):
            shp = eval(v[v.index("("):])
            shp = shp if isinstance(shp, tuple) else (shp,)
            if symbolic:
                a = symarr("c_" + k, shp)
                if v.startswith("sym+"):
                    pre += [toz(x) > 0 for x in a.ravel()]
                args[k] = a
            else:
                a = np.zeros(shp)
                for idx in np.ndindex(*shp):
                    val = (env or {}).get("c_" + k + "_" + "_".join(map(str, idx)))
                    a[idx] = val if val is not None else (abs(rng.normal()) + 0.5)
                args[k] = a
        else:
            a = np.array(v, dtype=float)
            args[k] = oarr(a) if symbolic else a
    if symbolic:
        args["observers"] = symarr("c_obs", (2, 3))
        args["position"] = symarr("c_pos", (2, 3))
    else:
        g = lambda nm: (env or {}).get(nm) if (env or {}).get(nm) is not None else float(rng.normal())
        args["observers"] = np.array([[g(f"c_obs_{i}_{c}") for c in range(3)] for i in range(2)])
        args["position"] = np.array([[g(f"c_pos_{i}_{c}") for c in range(3)] for i in range(2)])
    return args, pre


def _call_functional(cls, f, args):
    from magpylib._src.fields.field_wrap_BH import getBH_level2

    kw = {k: v for k, v in args.items() if k != "observers"}
    return getBH_level2(cls, args["observers"], field=f, sumup=False, squeeze=True, pixel_agg=None, output="ndarray", in_out="auto", **kw)


def _caller(C):
    from .wrappers import WRAPPERS, apply_cuts

    cls, f = C.case["cls"], C.case["field"]
    wkey = {"Tetrahedron": "tetra", "Cuboid": "cuboid", "Polyline": "polyline", "TriangularMesh": "trimesh", "Dipole": "dipole"}[cls]
    apply_cuts(WRAPPERS[wkey].cuts)

    def run():
        args, pre = _caller_args(cls, True)
        copies = {k: np.array(v, dtype=object, copy=True) for k, v in args.items()}
        try:
            _call_functional(cls, f, args)
            how = "return"
        except Exception as e:  # noqa
            how = f"{type(e).__name__}: {e}"
        return args, copies, pre, how

    args0, pre0 = _caller_args(cls, True)
    CTX.pre = pre0
    inputs = [x for a in args0.values() for x in np.asarray(a, dtype=object).ravel()]

    def on_path(p):
        C.paths += 1
        if p.status != "ok":
            C.note_inconclusive(f"p{C.paths}", f"aborted: {p.out}")
            return
        args, copies, pre, how = p.out
        rp = {"kind": "caller", "cls": cls, "field": f}
        terms = []
        for k, a in args.items():
            a = np.asarray(a, dtype=object)
            if a.shape != copies[k].shape:
                C.obligations.append({"name": f"p{C.paths}.{k}.shape", "status": "sat", "note": f"caller array {k} changed shape"})
                C.candidates.append({"key": f"C08|functional|caller-array|{cls}|{k}", "replay": dict(rp, env={})})
                return
            terms.append(neq_any(a, copies[k]))
        C.oblige(f"p{C.paths}.caller-arrays-unchanged[{how[:30]}]", p.pc, z3.Or(*terms), inputs=inputs, key=f"C08|functional|caller-array|{cls}",
                 on_model=lambda env: {"key": f"C08|functional|caller-array|{cls}", "replay": dict(rp, env=env)},
                 sample=f"get{f}('{cls}', observers, **per-instance arrays): every array passed by the caller is term-identical afterwards")

    paths = explore(run, max_paths=60 if C.tier == "quick" else 400, on_path=on_path, seeds=C.seed_envs(inputs, n=1))
    C.decisions += sum(len(p.decisions) for p in paths)
    if explore.truncated:
        C.note_inconclusive("path-budget", "path budget hit")


# exported core kernels (magpylib.core.*) called directly with the caller's arrays, 2 rows: name -> (argument shapes per row, positive arguments, cuts)
CORE = {
    "magnet_cuboid_Bfield": ({"observers": (3,), "dimensions": (3,), "polarizations": (3,)}, ("dimensions",), ()),
    "magnet_sphere_Bfield": ({"observers": (3,), "diameters": (), "polarizations": (3,)}, ("diameters",), ()),
    "dipole_Hfield": ({"observers": (3,), "moments": (3,)}, (), ()),
    "current_polyline_Hfield": ({"observers": (3,), "segments_start": (3,), "segments_end": (3,), "currents": ()}, (), ()),
    "triangle_Bfield": ({"observers": (3,), "vertices": (3, 3), "polarizations": (3,)}, (), ("triB-none",)),
    "current_circle_Hfield": ({"r0": (), "r": (), "z": (), "i0": ()}, ("r0", "r"), ("cel", "ellipe", "ellipk")),
    "magnet_cylinder_axial_Bfield": ({"z0": (), "r": (), "z": ()}, ("z0", "r"), ("cel", "ellipe", "ellipk")),
}


def _core_args(fn, symbolic, env=None):
    shapes, positive, _ = CORE[fn]
    args, pre = {}, []
    rng = np.random.default_rng(3)
    for k, shp in shapes.items():
        if symbolic:
            a = symarr(k, (2,) + tuple(shp))
            if k in positive:
                pre += [toz(x) > 0 for x in a.ravel()]
        else:
            a = rng.normal(size=(2,) + tuple(shp))
            for idx in np.ndindex(*a.shape):
                v = (env or {}).get(k + "_" + "_".join(map(str, idx)))
                if v is not None:
                    a[idx] = float(v)
            if k in positive:
                a = np.abs(a) + 0.1
        args[k] = a
    if fn == "triangle_Bfield":
        # concrete, non-degenerate triangles (the kernel itself is C15's subject); observers and polarizations stay symbolic
        V = np.array([[(0, 0, 0), (2, 0, 0), (0, 3, 1)], [(1, 0, 0), (0, 1, 0), (0, 0, 1)]], dtype=float)
        args["vertices"] = oarr(V) if symbolic else V.copy()
    if fn == "current_polyline_Hfield":
        # concrete segments (fully symbolic end points make the path conditions needlessly heavy; the aliasing question does not depend on them)
        s0 = np.array([(0, 0, 0), (1, -1, 0)], dtype=float)
        s1 = np.array([(1, 0, 0), (3, 0, 2)], dtype=float)
        args["segments_start"], args["segments_end"] = (oarr(s0), oarr(s1)) if symbolic else (s0.copy(), s1.copy())
    return args, pre


def _core(C):
    import magpylib.core as core
    from .wrappers import apply_cuts

    fn = C.case["fn"]
    apply_cuts([c for c in CORE[fn][2] if c in ("cel", "ellipe", "ellipk")])
    f = getattr(core, fn)
    # (magpylib.core re-exports the functions of the patched field modules: they run on the proxies)
    args0, pre0 = _core_args(fn, True)
    CTX.pre = pre0
    inputs = [x for a in args0.values() for x in np.asarray(a, dtype=object).ravel() if isinstance(x, S) and not z3.is_rational_value(x.z)]
    rp = {"kind": "core", "fn": fn}
    C.concrete_trace(replay, dict(rp, env={}), f"C08|core|caller-array|{fn}|concrete", reapply=lambda: apply_cuts([c for c in CORE[fn][2] if c in ("cel", "ellipe", "ellipk")]))

    def run():
        args, _ = _core_args(fn, True)
        copies = {k: np.array(v, dtype=object, copy=True) for k, v in args.items()}
        try:
            f(**args)
            how = "return"
        except Exception as e:  # noqa
            how = f"{type(e).__name__}: {e}"
        return args, copies, how

    def on_path(p):
        C.paths += 1
        if p.status != "ok":
            C.note_inconclusive(f"p{C.paths}", f"aborted: {p.out}")
            return
        args, copies, how = p.out
        terms = []
        for k, a in args.items():
            a = np.asarray(a, dtype=object)
            if a.shape != copies[k].shape:
                C.candidates.append({"key": f"C08|core|caller-array|{fn}|{k}", "replay": dict(rp, env={})})
                return
            terms.append(neq_any(a, copies[k]))
        C.oblige(f"p{C.paths}.caller-arrays-unchanged[{how[:30]}]", p.pc, z3.Or(*terms), inputs=inputs, key=f"C08|core|caller-array|{fn}",
                 on_model=lambda env: {"key": f"C08|core|caller-array|{fn}", "replay": dict(rp, env=env)},
                 sample=f"magpylib.core.{fn}(**arrays): every array passed by the caller is term-identical afterwards")

    paths = explore(run, max_paths=40 if C.tier == "quick" else 300, on_path=on_path, seeds=C.seed_envs(inputs, n=1))
    C.decisions += sum(len(p.decisions) for p in paths)
    if explore.truncated:
        C.note_inconclusive("path-budget", "path budget hit")


def _build(spec, state=None, plan=None, symbolic=True, env=None):
    sc = L2.Scene(spec, symbolic=symbolic, env=env)
    for o in sc.all:
        if o.kind == "custom":
            if symbolic:
                o.obj._field_func = faulty_field_func(o.tag, state)
            else:
                o.obj._field_func = float_faulty(o.tag, plan or {})
    return sc


def _faults(C):
    spec = SCENES[C.case["scene"]]

    def run():
        state = {"armed": True, "n": 0, "fired": []}
        sc = _build(spec, state)
        sc.patch_classes()
        try:
            snap = sc.snapshot()
            try:
                out1 = sc.call("B", squeeze=False)
                how = "return"
            except Exception as e:  # noqa
                out1 = None
                how = type(e).__name__
            probs, changed = _state_violation(sc, snap)
            out2 = None
            if how == "return" and not probs:
                state["armed"] = False
                out2 = sc.call("B", squeeze=False)
        finally:
            sc.unpatch_classes()
        return sc, how, list(state["fired"]), probs, changed, out1, out2

    def on_path(p):
        C.paths += 1
        if p.status != "ok":
            C.note_inconclusive(f"p{C.paths}", f"aborted: {p.out}")
            return
        sc, how, fired, probs, changed, out1, out2 = p.out
        tag = f"p{C.paths}[{how};{','.join(fired) or 'no-fault'}]"
        plan = {}
        for f in fired:
            act, rest = f.split("@")
            plan[rest] = act
        rp = {"kind": "faults", "scene": C.case["scene"], "plan": plan}
        if probs:
            C.obligations.append({"name": tag + ".structure", "status": "sat", "note": "; ".join(probs)})
            C.candidates.append({"key": f"C08|getBH_level2|state-after-{'return' if how == 'return' else 'exception'}|structure",
                                 "replay": dict(rp, env={})})
            return
        C.obligations.append({"name": tag + ".structure", "status": "unsat", "witness": "sat"})

        def on_model(env):
            return {"key": f"C08|getBH_level2|state-after-{'return' if how == 'return' else 'exception'}|values", "replay": dict(rp, env=env)}

        C.oblige(tag + ".state-unchanged", p.pc + sc.assume, changed, on_model=on_model, inputs=sc.inputs, nice=False, quat_groups=sc.quat_groups,
                 sample=f"after getBH_level2 {how} with faults {fired}: every position/orientation/pixel term identical to before")
        if out2 is not None:
            C.oblige(tag + ".second-call-identical", p.pc + sc.assume, neq_any(out1, out2), on_model=on_model, inputs=sc.inputs, nice=False, quat_groups=sc.quat_groups)

    paths = explore(run, max_paths=300 if C.tier == "quick" else 2000, on_path=on_path)
    C.decisions += sum(len(p.decisions) for p in paths)
    hows = {p.out[1] for p in paths if p.status == "ok"}
    if "return" not in hows or len(hows) < 2:
        C.vacuous.append(f"fault exploration reached only {hows}")
    if explore.truncated:
        C.note_inconclusive("path-budget", "path budget hit")


def _arg_scene(fault, symbolic=True, env=None):
    cu = lambda tag, m=1: {"kind": "custom", "tag": tag, "path": m}
    spec = {"sources": [cu("a", 1), {"kind": "dipole", "tag": "d1", "path": 3}],
            "sensors": [{"path": 2, "pixel": (2, 3), "orient": "identity"}]}
    if fault == "pixel-shapes":
        spec["sensors"].append({"path": 1, "pixel": (3,), "orient": "identity"})
    sc = L2.Scene(spec, symbolic=symbolic, env=env)
    kw = {}
    field = "B"
    if fault == "pixel_agg=bogus":
        kw["pixel_agg"] = "bogus"
    elif fault == "output=bogus":
        kw["output"] = "bogus"
    elif fault == "missing-moment":
        sc.top[1].obj._moment = None
    elif fault == "unsupported-field":
        base = sc.top[0].obj._field_func

        def only_B(field, observers):
            return base(field, observers) if field == "B" else None

        sc.top[0].obj._field_func = only_B
        field = "H"
    elif fault == "field_func=None":
        sc.top[0].obj._field_func = None
    return sc, field, kw


def _call_arg(sc, field, kw):
    from magpylib._src.fields.field_wrap_BH import getBH_level2

    args = dict(field=field, sumup=False, squeeze=False, pixel_agg=None, output="ndarray", in_out="auto")
    args.update(kw)
    return getBH_level2([o.obj for o in sc.top], [s.obj for s in sc.sensors], **args)


def _argfault(C):
    fault = C.case["fault"]
    CTX.reset([])
    sc, field, kw = _arg_scene(fault)
    sc.patch_classes()
    try:
        snap = sc.snapshot()
        try:
            _call_arg(sc, field, kw)
            how = "return"
        except Exception as e:  # noqa
            how = type(e).__name__
        probs, changed = _state_violation(sc, snap)
    finally:
        sc.unpatch_classes()
    C.paths += 1
    C.decisions += len(CTX.trace)
    tag = f"{fault}[{how}]"
    if how == "return":
        C.vacuous.append(f"argument fault {fault} did not raise")
    rp = {"kind": "arg", "fault": fault}
    if probs:
        C.obligations.append({"name": tag + ".structure", "status": "sat", "note": "; ".join(probs)})
        C.candidates.append({"key": "C08|getBH_level2|state-after-exception|structure", "replay": dict(rp, env={})})
        return
    C.obligations.append({"name": tag + ".structure", "status": "unsat", "witness": "sat"})
    C.oblige(tag + ".state-unchanged", CTX.pc + sc.assume, changed,
             on_model=lambda env: {"key": "C08|getBH_level2|state-after-exception|values", "replay": dict(rp, env=env)},
             inputs=sc.inputs, nice=False, quat_groups=sc.quat_groups, sample=f"getBH_level2 with {fault} raises {how} and leaves every pose term unchanged")


# ----------------------------------------------------------------------------- replay
def _float_state(sc):
    st = {}
    for o in sc.all:
        ob = o.obj
        st[o.name] = (np.array(ob._position, dtype=float), np.array(ob._orientation.as_quat(), dtype=float),
                      None if getattr(ob, "_pixel", None) is None else np.array(ob._pixel, dtype=float), ob._parent)
    return st


def _cmp_state(a, b):
    for k in a:
        pa, qa, xa, para = a[k]
        pb, qb, xb, parb = b[k]
        if pa.shape != pb.shape:
            return f"{k}: position path length {pa.shape[0]} -> {pb.shape[0]}"
        if qa.shape != qb.shape:
            return f"{k}: orientation path length {qa.shape[0]} -> {qb.shape[0]}"
        if not np.array_equal(pa, pb) or not np.allclose(qa, qb, rtol=0, atol=1e-15):
            return f"{k}: pose values changed"
        if xa is not None and not np.array_equal(xa, xb):
            return f"{k}: pixel changed"
        if para is not parb:
            return f"{k}: parent changed"
    return None


def replay(spec):
    env = spec.get("env") or {}
    if not env:
        rng = np.random.default_rng(3)

        class _E(dict):
            def get(self, k, d=None):
                if k not in self:
                    self[k] = float(rng.normal())
                return self[k]

        env = _E()
    if spec["kind"] == "objects":
        return _replay_objects(spec)
    if spec["kind"] == "caller":
        args, _ = _caller_args(spec["cls"], False, env=spec.get("env") or {})
        copies = {k: np.array(v, copy=True) for k, v in args.items()}
        try:
            _call_functional(spec["cls"], spec["field"], args)
            how = "return"
        except Exception as e:  # noqa
            how = type(e).__name__
        changed = [k for k, v in args.items() if np.shape(v) != copies[k].shape or not np.array_equal(np.asarray(v), copies[k])]
        return bool(changed), f"get{spec['field']}('{spec['cls']}', ...) ended with {how}; caller arrays changed: {changed or 'none'}"
    if spec["kind"] == "core":
        import magpylib.core as core

        args, _ = _core_args(spec["fn"], False, env=spec.get("env") or {})
        copies = {k: np.array(v, copy=True) for k, v in args.items()}
        try:
            getattr(core, spec["fn"])(**args)
            how = "return"
        except Exception as e:  # noqa
            how = type(e).__name__
        changed = [k for k, v in args.items() if np.shape(v) != copies[k].shape or not np.array_equal(np.asarray(v), copies[k])]
        return bool(changed), f"magpylib.core.{spec['fn']}(...) ended with {how}; caller arrays changed: {changed or 'none'}"
    if spec["kind"] == "faults":
        sc = _build(SCENES[spec["scene"]], plan=spec["plan"], symbolic=False, env=env)
        sc.patch_classes()
        try:
            before = _float_state(sc)
            try:
                sc.call("B", squeeze=False)
                how = "return"
            except Exception as e:  # noqa
                how = type(e).__name__
            diff = _cmp_state(before, _float_state(sc))
        finally:
            sc.unpatch_classes()
        return diff is not None, f"scene {spec['scene']} fault plan {spec['plan']}: call ended with {how}; {diff or 'state unchanged'}"
    sc, field, kw = _arg_scene(spec["fault"], symbolic=False, env=env)
    sc.patch_classes()
    try:
        before = _float_state(sc)
        try:
            _call_arg(sc, field, kw)
            how = "return"
        except Exception as e:  # noqa
            how = type(e).__name__
        diff = _cmp_state(before, _float_state(sc))
    finally:
        sc.unpatch_classes()
    return diff is not None, f"argument fault {spec['fault']}: call ended with {how}; {diff or 'state unchanged'}"
