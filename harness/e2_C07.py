"""C07  all interfaces to the same computation return the same numbers.

For every registered source class the same symbolic configuration is pushed through
  I1 magpylib.getX(src, obs)   I2 src.getX(obs)   I3 sens.getX(src)   I4 Collection(src).getX(obs)
  I5 magpylib.getX('ClassName', obs, position=, orientation=, **params)   (single parameter set)
  I6 q * field_func(X, q^-1 (obs - p), **params)                          (level-0 function of the class, by hand)
  I7 the functional interface with per-instance arrays (n=2) vs. the two objects
and the results are compared term by term on every feasible path.  The rank table / ragged detection / np.tile logic of
getBH_dict_level2 is executed for real; a documented call form that raises where the object interface succeeds is a violation.
"""
import numpy as np
import z3

from symnum import CTX, S, SymRot, install, oarr, symarr, sym, toz, explore, symrot
from .common import Case, neq_any, rel_close
from .wrappers import WRAPPERS, apply_cuts, tetra_mesh, UNIT_TETRA

PROPERTY = "C07"
FUNCTIONS = [
    "magpylib._src.fields.field_wrap_BH:getBH_level2",
    "magpylib._src.fields.field_wrap_BH:getBH_dict_level2",
    "magpylib._src.fields.field_wrap_BH:getBH_level1",
    "magpylib._src.fields.field_wrap_BH:get_src_dict",
    "magpylib._src.fields.field_wrap_BH:tile_group_property",
    "magpylib._src.fields.field_wrap_BH:getB",
    "magpylib._src.fields.field_wrap_BH:getH",
    "magpylib._src.fields.field_wrap_BH:getJ",
    "magpylib._src.fields.field_wrap_BH:getM",
    "magpylib._src.obj_classes.class_BaseExcitations:BaseSource.getB",
    "magpylib._src.obj_classes.class_Sensor:Sensor.getB",
    "magpylib._src.obj_classes.class_Collection:BaseCollection.getB",
    "magpylib._src.utility:get_registered_sources",
]
BOUNDS = [
    "one symbolic instance per class (pose, dimensions, excitation symbolic; vertices/meshes of Tetrahedron, Triangle, TriangularMesh, Polyline from fixed "
    "rational lists), one symbolic observer row for I1-I6; I7: n=2 instances = the symbolic one and a concrete second one",
    "fields B,H,J,M",
    "orientation: symbolic unit quaternion for Cuboid, Sphere, Tetrahedron, Triangle, TriangularMesh, Dipole; fixed rational quaternion (1,2,2,4)/5 for "
    "Cylinder, CylinderSegment, Circle, Polyline (their masks take norms of rotated coordinates; fully symbolic runs did not finish in 240 s)",
]
CUTS = ["leaf kernels uninterpreted (same applications on all sides); TriangularMesh inside test = uninterpreted predicate; SymRot"]
ASSUMPTIONS = ["real arithmetic; unit input quaternion"]
NOT_DECIDED = ["output='dataframe' (pandas cannot hold solver terms)", "CustomSource has no functional interface (I5/I7 not applicable)"]

TRI = [(0, 0, 0), (2, 0, 0), (0, 3, 1)]
POLY = [(0, 0, 0), (1, 0, 0), (1, 2, 0)]

# name -> (wrapper key for cuts/preconditions, parameters: list of (public name, private attr, row shape or None for concrete, concrete value))
CLASSES = {
    "Cuboid": ("cuboid", [("dimension", "_dimension", (3,), (1, 2, 3)), ("polarization", "_polarization", (3,), (0.1, 0.2, 0.3))]),
    "Cylinder": ("cylinder", [("dimension", "_dimension", (2,), (1, 2)), ("polarization", "_polarization", (3,), (0.1, 0.2, 0.3))]),
    "CylinderSegment": ("cylseg_internal", [("dimension", "_dimension", (5,), (1, 2, 1, 0, 90)), ("polarization", "_polarization", (3,), (0.1, 0.2, 0.3))]),
    "Sphere": ("sphere", [("diameter", "_diameter", (), 2.0), ("polarization", "_polarization", (3,), (0.1, 0.2, 0.3))]),
    "Tetrahedron": ("tetra", [("vertices", "_vertices", None, UNIT_TETRA), ("polarization", "_polarization", (3,), (0.1, 0.2, 0.3))]),
    "Triangle": ("triangle", [("vertices", "_vertices", None, TRI), ("polarization", "_polarization", (3,), (0.1, 0.2, 0.3))]),
    "TriangularMesh": ("trimesh", [("mesh", None, None, None), ("polarization", "_polarization", (3,), (0.1, 0.2, 0.3))]),
    "Circle": ("circle", [("diameter", "_diameter", (), 2.0), ("current", "_current", (), 1.5)]),
    "Polyline": ("polyline", [("vertices", "_vertices", None, POLY), ("current", "_current", (), 1.5)]),
    "Dipole": ("dipole", [("moment", "_moment", (3,), (1, 2, 3))]),
}
RATIONAL_ROT = ("Cylinder", "CylinderSegment", "Polyline", "Circle")
SECOND = {"pos": (1.0, 1.5, -2.0), "obs": (5.0, 6.0, 7.0)}


MESH2_SHIFT, MESH2_SCALE = (3.5, 4.0, 8.5), 2.0  # second TriangularMesh instance: a different mesh that contains the second observer


def _ctor(name, second=False):
    import magpylib as m

    if name == "TriangularMesh":
        verts = (np.array(UNIT_TETRA, dtype=float) * MESH2_SCALE + np.array(MESH2_SHIFT)) if second else UNIT_TETRA
        return m.magnet.TriangularMesh(vertices=verts, faces=[(0, 2, 1), (0, 1, 3), (1, 2, 3), (0, 3, 2)], polarization=(0.1, 0.2, 0.3),
                                       check_open=False, check_disconnected=False, check_selfintersecting=False, reorient_faces=False)
    mk = {
        "Cuboid": lambda: m.magnet.Cuboid(dimension=(1, 2, 3), polarization=(0.1, 0.2, 0.3)),
        "Cylinder": lambda: m.magnet.Cylinder(dimension=(1, 2), polarization=(0.1, 0.2, 0.3)),
        "CylinderSegment": lambda: m.magnet.CylinderSegment(dimension=(1, 2, 1, 0, 90), polarization=(0.1, 0.2, 0.3)),
        "Sphere": lambda: m.magnet.Sphere(diameter=2, polarization=(0.1, 0.2, 0.3)),
        "Tetrahedron": lambda: m.magnet.Tetrahedron(vertices=UNIT_TETRA, polarization=(0.1, 0.2, 0.3)),
        "Triangle": lambda: m.misc.Triangle(vertices=TRI, polarization=(0.1, 0.2, 0.3)),
        "Circle": lambda: m.current.Circle(diameter=2, current=1.5),
        "Polyline": lambda: m.current.Polyline(vertices=POLY, current=1.5),
        "Dipole": lambda: m.misc.Dipole(moment=(1, 2, 3)),
    }
    return mk[name]()


def cases(tier, seed):
    from magpylib._src.utility import get_registered_sources

    out = []
    reg = get_registered_sources()
    for name in reg:
        if name not in CLASSES:
            continue
        for f in "BHJM":
            out.append({"id": f"{name}-{f}", "cls": name, "field": f, "weight": 3 if name in ("Cuboid", "Cylinder", "CylinderSegment") else 1})
    return out


def _param_values(name, symbolic, env=None, second=False):
    """returns dict public name -> value (symbolic array / S / concrete)"""
    vals = {}
    inputs = []
    for pub, priv, shp, conc in CLASSES[name][1]:
        if pub == "mesh":
            msh = tetra_mesh(UNIT_TETRA, shift=MESH2_SHIFT, scale=MESH2_SCALE) if second else tetra_mesh(UNIT_TETRA)
            vals[pub] = oarr(msh) if symbolic else msh
            continue
        if shp is None:
            vals[pub] = oarr(np.array(conc, dtype=float)) if symbolic else np.array(conc, dtype=float)
        elif symbolic:
            if shp == ():
                v = sym("par_" + pub)
                inputs.append(v)
            else:
                v = symarr("par_" + pub, shp)
                inputs += list(v.ravel())
            vals[pub] = v
        else:
            if shp == ():
                vals[pub] = float(env.get("par_" + pub, conc) if env.get("par_" + pub) is not None else conc)
            else:
                vals[pub] = np.array([env.get(f"par_{pub}_{i}", conc[i]) if env.get(f"par_{pub}_{i}") is not None else conc[i] for i in range(shp[0])], dtype=float)
    return vals, inputs


def _pre(name, vals):
    wkey = CLASSES[name][0]
    w = WRAPPERS[wkey]
    A = {}
    for k, v in vals.items():
        if isinstance(v, S):
            A[k] = np.array([v], dtype=object)
        else:
            A[k] = np.asarray(v, dtype=object)[None]
    try:
        return w.pre(A, 0)
    except KeyError:
        return []


def _interfaces(name, f, src, vals, pos, rot, obs, second=None, R=None, concrete=False):
    """run every call form; returns dict label -> result or Exception"""
    import magpylib as m

    get = {"B": m.getB, "H": m.getH, "J": m.getJ, "M": m.getM}[f]
    meth = "get" + f
    res = {}

    def attempt(label, fn):
        try:
            res[label] = fn()
        except Exception as e:  # noqa
            res[label] = e

    attempt("I1 getX(src,obs)", lambda: get(src, obs))
    attempt("I2 src.getX(obs)", lambda: getattr(src, meth)(obs))
    sens = m.Sensor(pixel=obs)
    attempt("I3 sens.getX(src)", lambda: getattr(sens, meth)(src))
    coll = m.Collection()
    coll._children = [src]  # membership without touching src.parent
    coll._update_src_and_sens()
    attempt("I4 coll.getX(obs)", lambda: getattr(coll, meth)(obs))
    kw = dict(vals)
    attempt("I5 getX('Class',obs,**single)", lambda: get(name, obs, position=pos, orientation=rot, **kw))

    def by_hand():
        ff = type(src)._field_func
        loc = rot.apply(np.asarray(obs) - np.asarray(pos), inverse=True)
        n = len(loc)
        params = {}
        for k, v in vals.items():
            a = np.asarray(v, dtype=float) if concrete or not (isinstance(v, S) or getattr(v, "dtype", None) == object) else (np.array([v], dtype=object)[0] if isinstance(v, S) else v)
            if isinstance(v, S):
                params[k] = np.array([v] * n, dtype=object)
            else:
                a = np.asarray(v)
                params[k] = np.tile(a, (n,) + (1,) * a.ndim) if a.ndim else np.tile(a, n)
        if concrete:
            params = {k: np.asarray(v, dtype=float) for k, v in params.items()}
        else:
            params = {k: oarr(v) for k, v in params.items()}
        extra = {"in_out": "auto"} if name in ("Tetrahedron", "TriangularMesh") else {}
        out = ff(field=f, observers=loc, **params, **extra)
        return rot.apply(out)

    attempt("I6 q*field_func(q^-1(obs-p))", by_hand)
    if second is not None:
        src2, vals2, pos2, rot2, obs2 = second

        def two():
            kw2 = {}
            for k in vals:
                a, b = vals[k], vals2[k]
                if isinstance(a, S) or np.ndim(a) == 0:
                    kw2[k] = [a, b]
                else:
                    kw2[k] = [a, np.asarray(b)] if concrete else [a, oarr(np.asarray(b, dtype=float))]
            if concrete:
                kw2 = {k: np.array(v, dtype=float) for k, v in kw2.items()}
                P = np.array([pos, pos2], dtype=float)
                O = np.array([obs[0], obs2], dtype=float)
                Q = R.from_quat(np.array([rot.as_quat(), rot2.as_quat()]))
            else:
                kw2 = {k: oarr(np.array(v, dtype=object)) for k, v in kw2.items()}
                P = oarr(np.array([list(pos), list(pos2)], dtype=object))
                O = oarr(np.array([list(obs[0]), list(obs2)], dtype=object))
                Q = SymRot(oarr(np.array([list(rot.as_quat()), list(rot2.as_quat())], dtype=object)), False)
            return get(name, O, position=P, orientation=Q, **kw2)

        attempt("I7 getX('Class',obs,**per-instance n=2)", two)
        attempt("I7ref row1: src2.getX(obs2)", lambda: getattr(src2, meth)(np.asarray(obs2)[None] if concrete else oarr(np.array([obs2], dtype=float))))
    return res


def _install_params(src, name, vals):
    for pub, priv, shp, conc in CLASSES[name][1]:
        if priv is None:
            continue
        setattr(src, priv, vals[pub])


def run_case(case, info):
    C = Case(case, info)
    name, f = case["cls"], case["field"]
    wkey = CLASSES[name][0]
    apply_cuts(WRAPPERS[wkey].cuts)
    vals, inputs = _param_values(name, True)
    pos = symarr("pos", (3,))
    if name in RATIONAL_ROT:
        # kernels whose masks go through norms of rotated coordinates: a fixed rational unit quaternion (position stays symbolic)
        from fractions import Fraction

        rot, unit = SymRot(oarr(np.array([S(toz(Fraction(k, 5))) for k in (1, 2, 2, 4)], dtype=object)), True), []
    else:
        rot, unit = symrot("rq")
    obs = symarr("obs", (1, 3))
    CTX.pre = _pre(name, vals) + unit
    inputs = inputs + list(pos) + list(obs.ravel())
    qg = [list(rot.q[0])]

    def run():
        src = _ctor(name)
        _install_params(src, name, vals)
        if name == "TriangularMesh":
            src._vertices = oarr(np.asarray(src._vertices, dtype=float))
        src._position = pos.reshape(1, 3).copy()
        src._orientation = SymRot(rot.q.copy(), False)
        src2 = _ctor(name, second=True)
        vals2, _ = _param_values(name, False, env={}, second=True)
        # src2 keeps the concrete constructor parameter values, stored as constant terms (plain float arrays cannot be
        # indexed by the symbolic masks of a mixed batch)
        for pub, priv, shp, conc in CLASSES[name][1]:
            if priv is not None:
                setattr(src2, priv, S(toz(float(conc))) if shp == () else oarr(np.asarray(conc, dtype=float)))
        if name == "TriangularMesh":
            src2._vertices = oarr(np.asarray(src2._vertices, dtype=float))
        pos2 = oarr(np.array(SECOND["pos"]))
        rot2 = SymRot(np.array([0, 0, 0, 1.0]), True)
        src2._position = pos2.reshape(1, 3).copy()
        src2._orientation = SymRot(np.array([[0, 0, 0, 1.0]]), False)
        second = (src2, vals2, pos2, rot2, np.array(SECOND["obs"]))
        return _interfaces(name, f, src, vals, pos, rot, obs, second=second)

    def on_path(p):
        C.paths += 1
        if p.status != "ok":
            C.note_inconclusive(f"p{C.paths}", f"aborted: {p.out}")
            return
        res = p.out
        ref_label = "I2 src.getX(obs)"
        ref = res[ref_label]
        rp = {"kind": "c07", "cls": name, "field": f}
        if isinstance(ref, Exception):
            C.note_inconclusive(f"p{C.paths}.reference", f"object interface raised {type(ref).__name__}: {ref}")
            return
        refv = np.asarray(ref, dtype=object).reshape(-1, 3)
        for label, val in res.items():
            if label == ref_label or label.startswith("I7ref"):
                continue

            def on_model(env, label=label):
                return {"key": f"C07|{name}|{label.split()[0]}|{f}", "replay": dict(rp, env=env, label=label)}

            if isinstance(val, Exception):
                C.obligations.append({"name": f"p{C.paths}.{label}.returns", "status": "sat", "note": f"raised {type(val).__name__}: {str(val)[:120]}"})
                C.oblige(f"p{C.paths}.{label}.raise-witness", p.pc, z3.BoolVal(True), on_model=on_model, inputs=inputs, nice=True, quat_groups=qg)
                continue
            v = np.asarray(val, dtype=object)
            if label.startswith("I7 "):
                r1 = res.get("I7ref row1: src2.getX(obs2)")
                if isinstance(r1, Exception):
                    C.note_inconclusive(f"p{C.paths}.I7ref", f"raised {r1}")
                    continue
                want = np.concatenate([refv[:1], np.asarray(r1, dtype=object).reshape(-1, 3)[:1]])
                if v.shape != want.shape:
                    C.obligations.append({"name": f"p{C.paths}.{label}.shape", "status": "sat", "note": f"{v.shape} vs {want.shape}"})
                    C.oblige(f"p{C.paths}.{label}.shape-witness", p.pc, z3.BoolVal(True), on_model=on_model, inputs=inputs, quat_groups=qg)
                    continue
                viol = neq_any(v, want)
            else:
                v = v.reshape(-1, 3)
                if v.shape != refv.shape:
                    C.obligations.append({"name": f"p{C.paths}.{label}.shape", "status": "sat", "note": f"{v.shape} vs {refv.shape}"})
                    C.oblige(f"p{C.paths}.{label}.shape-witness", p.pc, z3.BoolVal(True), on_model=on_model, inputs=inputs, quat_groups=qg)
                    continue
                viol = neq_any(v, refv)
            C.oblige(f"p{C.paths}.{label}==src.getX", p.pc, viol, on_model=on_model, inputs=inputs, nice=False, quat_groups=qg,
                     sample=f"{name}: {label} returns the same {f} terms as src.get{f}(obs) for all reals on this path")

    paths = explore(run, max_paths=120 if C.tier == "quick" else 1000, on_path=on_path, seeds=C.seed_envs(inputs + (list(rot.q.ravel()) if name not in RATIONAL_ROT else []), qg if name not in RATIONAL_ROT else (), n=2))
    C.decisions += sum(len(p.decisions) for p in paths)
    if explore.truncated:
        C.note_inconclusive("path-budget", "path budget hit")
    return C.result()


def replay(spec):
    from scipy.spatial.transform import Rotation as R

    name, f = spec["cls"], spec["field"]
    env = dict(spec.get("env") or {})
    vals, _ = _param_values(name, False, env=env)
    g = lambda k, d: (env.get(k) if env.get(k) is not None else d)
    pos = np.array([g(f"pos_{i}", 0.3 * (i + 1)) for i in range(3)], dtype=float)
    q = np.array([g(f"rq_{i}", [0.2, 0.4, 0.4, 0.8][i]) for i in range(4)], dtype=float)
    if np.linalg.norm(q) == 0:
        q = np.array([0, 0, 0, 1.0])
    rot = R.from_quat(q)
    obs = np.array([[g(f"obs_0_{i}", 1.5 + i) for i in range(3)]], dtype=float)
    import warnings

    warnings.simplefilter("ignore")
    src = _ctor(name)
    _install_params(src, name, vals)
    src._position = pos.reshape(1, 3).copy()
    src._orientation = R.from_quat(q.reshape(1, 4))
    src2 = _ctor(name, second=True)
    vals2, _ = _param_values(name, False, env={}, second=True)
    pos2 = np.array(SECOND["pos"])
    rot2 = R.identity()
    src2._position = pos2.reshape(1, 3).copy()
    second = (src2, vals2, pos2, rot2, np.array(SECOND["obs"]))
    res = _interfaces(name, f, src, vals, pos, rot, obs, second=second, R=R, concrete=True)
    ref = res["I2 src.getX(obs)"]
    if isinstance(ref, Exception):
        return False, f"object interface itself raises {type(ref).__name__}: {ref}"
    refv = np.asarray(ref, dtype=float).reshape(-1, 3)
    want_label = spec.get("label")
    for label, val in res.items():
        if label.startswith("I2") or label.startswith("I7ref"):
            continue
        if want_label and label != want_label:
            continue
        if isinstance(val, Exception):
            return True, f"{name} field {f}: {label} raised {type(val).__name__}: {str(val)[:160]} while src.get{f}(obs) returned {refv.tolist()}"
        v = np.asarray(val, dtype=float)
        if label.startswith("I7 "):
            r1 = np.asarray(res["I7ref row1: src2.getX(obs2)"], dtype=float).reshape(-1, 3)
            want = np.concatenate([refv[:1], r1[:1]])
        else:
            v = v.reshape(-1, 3)
            want = refv
        if v.shape != want.shape or not rel_close(v, want, 1e-9, 1e-300):
            return True, f"{name} field {f}: {label} = {v.tolist()} but object interface = {want.tolist()}"
    return False, "all interfaces agree in doubles"
