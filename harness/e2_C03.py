"""C03  fields are covariant under a rigid motion of the whole setup.

Sources with symbolic pose paths and uninterpreted local field functions are evaluated with the real getBH_level2; then one
symbolic rigid motion (unit quaternion q0, translation t0) is applied to every source THROUGH THE REAL API
(rotate(q0, anchor=0, start=0) then move(t0, start=0)) and to the observer positions; the second evaluation must be
q0 applied to the first, element by element, for all reals.
"""
import numpy as np
import z3

from symnum import CTX, SymRot, oarr, symarr, toz, explore, symrot
from .common import Case, neq_any, rel_close
from . import level2 as L2

PROPERTY = "C03"
FUNCTIONS = [
    "magpylib._src.fields.field_wrap_BH:getBH_level2",
    "magpylib._src.fields.field_wrap_BH:getBH_level1",
    "magpylib._src.obj_classes.class_BaseTransform:apply_rotation",
    "magpylib._src.obj_classes.class_BaseTransform:apply_move",
    "magpylib._src.obj_classes.class_BaseTransform:path_padding",
    "magpylib._src.obj_classes.class_BaseTransform:BaseTransform.move",
    "magpylib._src.obj_classes.class_BaseTransform:BaseTransform.rotate",
]
BOUNDS = [
    "<=2 top-level sources (custom sources, a class group of dipoles, a collection of two, a nested collection), path lengths from {1,2,3} "
    "(unequal lengths exercise the tiling), <=2 observer positions or one Sensor moved along with the setup; all real poses, one symbolic rigid "
    "motion (unit quaternion + translation) applied either as rotate(anchor=0)+move or as rotate(anchor=None)+per-entry move",
]
CUTS = ["local field functions uninterpreted (statement proved for every local field function)", "scipy Rotation replaced by SymRot"]
ASSUMPTIONS = ["real arithmetic; unit norm of all input quaternions"]
NOT_DECIDED = ["improper transformations; observers within rounding distance of a surface (no rounding is modelled)"]

cu = lambda tag, m=1: {"kind": "custom", "tag": tag, "path": m}
di = lambda tag, m=1: {"kind": "dipole", "tag": tag, "path": m}
SCENES = {
    "one-static": {"sources": [cu("a", 1)], "sensors": []},
    "one-path3": {"sources": [cu("a", 3)], "sensors": []},
    "two-unequal": {"sources": [cu("a", 1), cu("b", 2)], "sensors": []},
    "dipole-group": {"sources": [di("d1", 2), di("d2", 1)], "sensors": []},
    "collection": {"sources": [{"kind": "coll", "path": 2, "children": [cu("a", 2), di("d1", 2)]}], "sensors": []},
    "nested-collection": {"sources": [{"kind": "coll", "path": 1, "children": [{"kind": "coll", "path": 1, "children": [cu("a", 1)]}, cu("b", 1)]}], "sensors": []},
    "with-sensor": {"sources": [cu("a", 2)], "sensors": [{"path": 1, "pixel": (3,), "orient": "identity"}]},
}
THOROUGH_SCENES = {
    # sensor paths: every == test on the symbolic sensor quaternions forks, before and after the motion (hundreds of paths)
    "with-sensor-path2": {"sources": [cu("a", 2)], "sensors": [{"path": 2, "pixel": (3,), "orient": "sym"}]},
    "with-sensor-sym": {"sources": [cu("a", 1)], "sensors": [{"path": 1, "pixel": None, "orient": "sym"}]},
}
MODES = ("anchor0", "own-anchor")


def cases(tier, seed):
    out = []
    if tier == "thorough":
        SCENES.update(THOROUGH_SCENES)
    for nm in SCENES:
        for mode in MODES:
            nobs = 2 if mode == "anchor0" else 1
            out.append({"id": f"{nm}-{mode}-obs{nobs}", "scene": nm, "nobs": nobs, "mode": mode, "weight": 3})
    return out


def _moved_copy_env(sc):
    pass


def _rigid(obj, P, q0, t0, mode, symbolic):
    """apply the global rigid motion x -> q0 x + t0 to one top-level object through the public API"""
    if mode == "anchor0":
        obj.rotate(q0, anchor=0, start=0)
        obj.move(t0.copy(), start=0)
    else:
        # rotate about the object's own position (anchor=None; children of a collection rotate about the collection position),
        # then translate every path entry so that the net effect is the same global motion
        obj.rotate(q0, start=0)
        disp = q0.apply(P) + t0 - P
        obj.move(disp if len(P) > 1 else disp[0], start=0)


def run_case(case, info):
    C = Case(case, info, qtimeout=20000 if info["tier"] == "quick" else 120000)
    SCENES.update(THOROUGH_SCENES)
    spec = SCENES[case["scene"]]
    nobs = case["nobs"]
    mode = case.get("mode", "anchor0")
    C.concrete_trace(replay, {"kind": "c03", "scene": case["scene"], "nobs": nobs, "mode": mode, "env": {}}, f"C03|getBH_level2+rotate+move|{case['scene']}|concrete")

    def run():
        sc = L2.Scene(spec)
        sc.patch_classes()
        try:
            obs = symarr("o", (nobs, 3))
            q0, unit0 = symrot("g")
            t0 = symarr("t", (3,))
            try:
                use_sens = bool(sc.sensors)
                out1 = sc.call("B", squeeze=False, observers=None if use_sens else obs.copy())
                for t in sc.top + sc.sensors:
                    _rigid(t.obj, t.P, q0, t0, mode, symbolic=True)
                obs2 = q0.apply(obs) + t0
                out2 = sc.call("B", squeeze=False, observers=None if use_sens else obs2)
            except Exception as e:  # noqa
                return sc, e, None, None, None, None
        finally:
            sc.unpatch_classes()
        return sc, out1, out2, q0, unit0, list(obs.ravel()) + list(t0) + list(q0.q.ravel())

    def on_path(p):
        C.paths += 1
        if p.status != "ok":
            C.note_inconclusive(f"p{C.paths}", f"aborted: {p.out}")
            return
        sc, out1, out2, q0, unit0, extra_inputs = p.out
        rp = {"kind": "c03", "scene": case["scene"], "nobs": nobs, "mode": mode}
        if isinstance(out1, Exception):
            C.obligations.append({"name": f"p{C.paths}.returns", "status": "sat", "note": f"raised {type(out1).__name__}: {out1}"})
            C.candidates.append({"key": f"C03|raises|{case['scene']}", "replay": dict(rp, env={})})
            return
        o1 = np.asarray(out1, dtype=object)
        o2 = np.asarray(out2, dtype=object)
        if o1.shape != o2.shape:
            C.obligations.append({"name": f"p{C.paths}.shape", "status": "sat", "note": f"{o1.shape} vs {o2.shape}"})
            C.candidates.append({"key": f"C03|shape|{case['scene']}", "replay": dict(rp, env={})})
            return
        # bare observers: the global-frame field rotates with q0; sensors moved along: their readings are unchanged
        rot1 = o1.reshape(-1, 3) if sc.sensors else q0.apply(o1.reshape(-1, 3))
        viol = neq_any(rot1, o2.reshape(-1, 3))
        viol, merged, failed = C.merge_uf(p.pc + sc.assume + unit0, viol, inputs=sc.inputs + extra_inputs, quat_groups=sc.quat_groups + [list(q0.q[0])])
        C.obligations.append({"name": f"p{C.paths}.argument-lemmas", "status": "unsat" if not failed else "unknown", "witness": "sat",
                              "note": f"{merged} pairs of local-field applications proved to have equal arguments, {failed} undecided"})
        C.oblige(f"p{C.paths}.covariance", p.pc + sc.assume + unit0, viol,
                 on_model=lambda env: {"key": f"C03|getBH_level2+rotate+move|{case['scene']}", "replay": dict(rp, env=env)},
                 inputs=sc.inputs + extra_inputs, nice=False, quat_groups=sc.quat_groups + [list(q0.q[0])],
                 sample=f"B(q0*setup + t0 ; q0*obs + t0) == q0 * B(setup; obs) for all {o1.size // 3} elements, all poses and rigid motions")

    paths = explore(run, max_paths=60 if C.tier == "quick" else 400, on_path=on_path)
    C.decisions += sum(len(p.decisions) for p in paths)
    if explore.truncated:
        C.note_inconclusive("path-budget", "path budget hit")
    return C.result()


def replay(spec):
    from scipy.spatial.transform import Rotation as R

    env = spec.get("env") or {}
    rng = np.random.default_rng(11)

    class _E(dict):
        def get(self, k, d=None):
            if k not in self or self[k] is None:
                self[k] = float(rng.normal())
            return self[k]

    env = _E(env)
    SCENES.update(THOROUGH_SCENES)
    sc = L2.Scene(SCENES[spec["scene"]], symbolic=False, env=env)
    sc.patch_classes()
    try:
        n = spec["nobs"]
        obs = np.array([[env.get(f"o_{i}_{c}") for c in range(3)] for i in range(n)])
        q = np.array([env.get(f"g_{c}") for c in range(4)])
        if np.linalg.norm(q) == 0:
            q = np.array([0, 0, 0, 1.0])
        q0 = R.from_quat(q)
        t0 = np.array([env.get(f"t_{c}") for c in range(3)])
        try:
            use_sens = bool(sc.sensors)
            out1 = np.asarray(sc.call("B", squeeze=False, observers=None if use_sens else obs.copy()), dtype=float)
            for t in sc.top + sc.sensors:
                _rigid(t.obj, np.array(t.P), q0, t0, spec.get("mode", "anchor0"), symbolic=False)
            out2 = np.asarray(sc.call("B", squeeze=False, observers=None if use_sens else q0.apply(obs) + t0), dtype=float)
        except Exception as e:  # noqa
            return True, f"valid call raised {type(e).__name__}: {str(e)[:200]}"
    finally:
        sc.unpatch_classes()
    if out1.shape != out2.shape:
        return True, f"shape {out1.shape} vs {out2.shape}"
    exp = out1 if sc.sensors else q0.apply(out1.reshape(-1, 3)).reshape(out1.shape)
    bad = not rel_close(exp, out2, 1e-9, 1e-12)
    return bad, f"scene {spec['scene']}: max |q0*B - B'| = {np.abs(exp - out2).max():.3e}"
