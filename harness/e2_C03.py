"""C03  fields are covariant under a rigid motion of the whole setup.

Sources with symbolic pose paths and uninterpreted local field functions are evaluated with the real getBH_level2; then one
symbolic rigid motion (unit quaternion q0, translation t0) is applied to every source THROUGH THE REAL API
(rotate(q0, anchor=0, start=0) then move(t0, start=0)) and to the observer positions; the second evaluation must be
q0 applied to the first, element by element, for all reals.
"""
import numpy as np
import z3

from symnum import CTX, SymRot, oarr, symarr, toz, explore, symrot
from .common import Case, neq_any, rel_close
from . import level2 as L2

PROPERTY = "C03"
FUNCTIONS = [
    "magpylib._src.fields.field_wrap_BH:getBH_level2",
    "magpylib._src.fields.field_wrap_BH:getBH_level1",
    "magpylib._src.obj_classes.class_BaseTransform:apply_rotation",
    "magpylib._src.obj_classes.class_BaseTransform:apply_move",
    "magpylib._src.obj_classes.class_BaseTransform:path_padding",
    "magpylib._src.obj_classes.class_BaseTransform:BaseTransform.move",
    "magpylib._src.obj_classes.class_BaseTransform:BaseTransform.rotate",
]
BOUNDS = [
    "<=2 top-level sources (custom sources, a class group of dipoles, a collection of two), path lengths from {1,2,3} (unequal lengths "
    "exercise the tiling), <=2 observer positions; all real poses, one symbolic rigid motion (unit quaternion + translation)",
]
CUTS = ["local field functions uninterpreted (statement proved for every local field function)", "scipy Rotation replaced by SymRot"]
ASSUMPTIONS = ["real arithmetic; unit norm of all input quaternions"]
NOT_DECIDED = ["improper transformations; observers within rounding distance of a surface (no rounding is modelled)"]

cu = lambda tag, m=1: {"kind": "custom", "tag": tag, "path": m}
di = lambda tag, m=1: {"kind": "dipole", "tag": tag, "path": m}
SCENES = {
    "one-static": {"sources": [cu("a", 1)], "sensors": []},
    "one-path3": {"sources": [cu("a", 3)], "sensors": []},
    "two-unequal": {"sources": [cu("a", 1), cu("b", 2)], "sensors": []},
    "dipole-group": {"sources": [di("d1", 2), di("d2", 1)], "sensors": []},
    "collection": {"sources": [{"kind": "coll", "path": 2, "children": [cu("a", 2), di("d1", 2)]}], "sensors": []},
}


def cases(tier, seed):
    out = []
    for nm in SCENES:
        for nobs in (1, 2):
            out.append({"id": f"{nm}-obs{nobs}", "scene": nm, "nobs": nobs, "weight": 3})
    return out


def _moved_copy_env(sc):
    pass


def run_case(case, info):
    C = Case(case, info, qtimeout=20000 if info["tier"] == "quick" else 120000)
    spec = SCENES[case["scene"]]
    nobs = case["nobs"]

    def run():
        sc = L2.Scene(spec)
        sc.patch_classes()
        try:
            obs = symarr("o", (nobs, 3))
            q0, unit0 = symrot("g")
            t0 = symarr("t", (3,))
            try:
                out1 = sc.call("B", squeeze=False, observers=obs.copy())
                for t in sc.top:
                    t.obj.rotate(q0, anchor=0, start=0)
                    t.obj.move(t0.copy(), start=0)
                obs2 = q0.apply(obs) + t0
                out2 = sc.call("B", squeeze=False, observers=obs2)
            except Exception as e:  # noqa
                return sc, e, None, None, None, None
        finally:
            sc.unpatch_classes()
        return sc, out1, out2, q0, unit0, list(obs.ravel()) + list(t0) + list(q0.q.ravel())

    def on_path(p):
        C.paths += 1
        if p.status != "ok":
            C.note_inconclusive(f"p{C.paths}", f"aborted: {p.out}")
            return
        sc, out1, out2, q0, unit0, extra_inputs = p.out
        rp = {"kind": "c03", "scene": case["scene"], "nobs": nobs}
        if isinstance(out1, Exception):
            C.obligations.append({"name": f"p{C.paths}.returns", "status": "sat", "note": f"raised {type(out1).__name__}: {out1}"})
            C.candidates.append({"key": f"C03|raises|{case['scene']}", "replay": dict(rp, env={})})
            return
        o1 = np.asarray(out1, dtype=object)
        o2 = np.asarray(out2, dtype=object)
        if o1.shape != o2.shape:
            C.obligations.append({"name": f"p{C.paths}.shape", "status": "sat", "note": f"{o1.shape} vs {o2.shape}"})
            C.candidates.append({"key": f"C03|shape|{case['scene']}", "replay": dict(rp, env={})})
            return
        rot1 = q0.apply(o1.reshape(-1, 3))
        viol = neq_any(rot1, o2.reshape(-1, 3))
        viol, merged, failed = C.merge_uf(p.pc + sc.assume + unit0, viol)
        C.obligations.append({"name": f"p{C.paths}.argument-lemmas", "status": "unsat" if not failed else "unknown", "witness": "sat",
                              "note": f"{merged} pairs of local-field applications proved to have equal arguments, {failed} undecided"})
        C.oblige(f"p{C.paths}.covariance", p.pc + sc.assume + unit0, viol,
                 on_model=lambda env: {"key": f"C03|getBH_level2+rotate+move|{case['scene']}", "replay": dict(rp, env=env)},
                 inputs=sc.inputs + extra_inputs, nice=False, quat_groups=sc.quat_groups + [list(q0.q[0])],
                 sample=f"B(q0*setup + t0 ; q0*obs + t0) == q0 * B(setup; obs) for all {o1.size // 3} elements, all poses and rigid motions")

    paths = explore(run, max_paths=60 if C.tier == "quick" else 400, on_path=on_path)
    C.decisions += sum(len(p.decisions) for p in paths)
    if explore.truncated:
        C.note_inconclusive("path-budget", "path budget hit")
    return C.result()


def replay(spec):
    from scipy.spatial.transform import Rotation as R

    env = spec.get("env") or {}
    rng = np.random.default_rng(11)

    class _E(dict):
        def get(self, k, d=None):
            if k not in self or self[k] is None:
                self[k] = float(rng.normal())
            return self[k]

    env = _E(env)
    sc = L2.Scene(SCENES[spec["scene"]], symbolic=False, env=env)
    sc.patch_classes()
    try:
        n = spec["nobs"]
        obs = np.array([[env.get(f"o_{i}_{c}") for c in range(3)] for i in range(n)])
        q = np.array([env.get(f"g_{c}") for c in range(4)])
        if np.linalg.norm(q) == 0:
            q = np.array([0, 0, 0, 1.0])
        q0 = R.from_quat(q)
        t0 = np.array([env.get(f"t_{c}") for c in range(3)])
        try:
            out1 = np.asarray(sc.call("B", squeeze=False, observers=obs.copy()), dtype=float)
            for t in sc.top:
                t.obj.rotate(q0, anchor=0, start=0)
                t.obj.move(t0, start=0)
            out2 = np.asarray(sc.call("B", squeeze=False, observers=q0.apply(obs) + t0), dtype=float)
        except Exception as e:  # noqa
            return True, f"valid call raised {type(e).__name__}: {str(e)[:200]}"
    finally:
        sc.unpatch_classes()
    if out1.shape != out2.shape:
        return True, f"shape {out1.shape} vs {out2.shape}"
    exp = q0.apply(out1.reshape(-1, 3)).reshape(out1.shape)
    bad = not rel_close(exp, out2, 1e-9, 1e-12)
    return bad, f"scene {spec['scene']}: max |q0*B - B'| = {np.abs(exp - out2).max():.3e}"
