"""C04  a Sensor reports the global field at its pixels, in its own frame (handedness, pixel_agg, mixed pixel shapes).

Real getBH_level2 (+ observer formatting, static-orientation detection, pixel aggregation) under SymNum with
uninterpreted per-source field functions.  The three back-rotation code paths (unrotated / static orientation /
rotating path) are selected by == tests on symbolic quaternion components, i.e. they are forks of the symbolic execution.
"""
import inspect

import numpy as np
import z3

from symnum import CTX, toz, explore
from .common import Case, neq_any, rel_close
from . import level2 as L2

PROPERTY = "C04"
FUNCTIONS = [
    "magpylib._src.fields.field_wrap_BH:getBH_level2",
    "magpylib._src.fields.field_wrap_BH:getBH_level1",
    "magpylib._src.input_checks:check_format_input_observers",
    "magpylib._src.input_checks:check_format_pixel_agg",
    "magpylib._src.utility:check_static_sensor_orient",
]
BOUNDS = [
    "1-3 sensors (thorough: 4), pixel layouts from {None,(3,),(2,3),(1,2,3),(2,1,3)}, sensor path lengths {1,2,3}, 1-2 sources with path lengths {1,2}",
    "pixel_agg in {None, mean, sum, min, max}; all real poses, pixel offsets, unit quaternions",
]
CUTS = ["local field functions uninterpreted; scipy Rotation replaced by SymRot (unit-quaternion model)"]
ASSUMPTIONS = ["real arithmetic; unit norm of all input quaternions"]
NOT_DECIDED = ["pixel_agg median/std/var and other reductions that sort or take roots", "observers given as bare position arrays mixed with sensors (covered in C07)"]

cu = lambda tag, m=1: {"kind": "custom", "tag": tag, "path": m}
se = lambda m=1, pixel=None, orient="sym", hand="right": {"path": m, "pixel": pixel, "orient": orient, "hand": hand}

SCENES = {
    "rotating-path": ({"sources": [cu("a", 1)], "sensors": [se(2, (3,))]}, None),
    "rotating-path-3": ({"sources": [cu("a", 2)], "sensors": [se(3, None)]}, None),
    "left-handed": ({"sources": [cu("a", 2)], "sensors": [se(1, (2, 3), "sym", "left")]}, None),
    "two-sensors-static-and-rot": ({"sources": [cu("a", 1), cu("b", 2)], "sensors": [se(2, (2, 3), "static"), se(2, (2, 3), "sym", "left")]}, None),
    "coll-rot-sensor": ({"sources": [{"kind": "coll", "path": 1, "children": [cu("a", 1), cu("b", 2)]}, cu("c", 1)], "sensors": [se(2, (3,), "sym")]}, None),
    "agg-mean-mixed": ({"sources": [cu("a", 1)], "sensors": [se(1, (2, 3), "static"), se(2, (3,), "identity"), se(1, None, "identity")]}, "mean"),
    "agg-sum-same": ({"sources": [cu("a", 2)], "sensors": [se(1, (1, 2, 3), "static", "left"), se(1, (2, 1, 3), "identity")]}, "sum"),
    "agg-min-mixed": ({"sources": [cu("a", 1)], "sensors": [se(1, (2, 3), "identity"), se(1, (3,), "identity")]}, "min"),
    "agg-max-same": ({"sources": [cu("a", 1)], "sensors": [se(1, (2, 3), "identity", "left")]}, "max"),
    # equal pixel shapes separated by a different one (A, B, A): the aggregate of sensor k must stay at index k
    "agg-sum-interleaved": ({"sources": [cu("a", 1)], "sensors": [se(1, (2, 3), "identity"), se(1, (3,), "identity"), se(1, (2, 3), "static", "left")]}, "sum"),
}
THOROUGH_SCENES = {
    "rot-3-pixels": ({"sources": [cu("a", 3), cu("b", 1)], "sensors": [se(3, (1, 2, 3), "sym"), se(2, (1, 2, 3), "sym", "left")]}, None),
    "agg-max-interleaved-4": ({"sources": [cu("a", 2)], "sensors": [se(1, (3,), "identity"), se(2, (2, 3), "sym"), se(1, (3,), "static"), se(1, (2, 3), "identity", "left")]}, "max"),
    "agg-mean-rot-mixed": ({"sources": [cu("a", 2)], "sensors": [se(2, (2, 3), "sym"), se(1, (3,), "sym", "left")]}, "mean"),
}


def cases(tier, seed):
    sc = dict(SCENES)
    if tier == "thorough":
        sc.update(THOROUGH_SCENES)
    return [{"id": nm, "scene": nm, "weight": 3} for nm in sc]


def _scene(nm):
    return SCENES.get(nm) or THOROUGH_SCENES[nm]


def run_case(case, info):
    C = Case(case, info)
    spec, agg = _scene(case["scene"])
    C.concrete_trace(replay, {"kind": "c04", "scene": case["scene"], "env": {}}, f"C04|getBH_level2|values|{case['scene']}|concrete")

    def run():
        sc = L2.Scene(spec)
        try:
            out = sc.call("B", squeeze=False, pixel_agg=agg)
        except Exception as e:  # noqa  (the real code raising on a valid call is itself a violation candidate)
            out = e
        return sc, out

    def on_path(p):
        C.paths += 1
        if p.status != "ok":
            C.note_inconclusive(f"p{C.paths}", f"aborted: {p.out}")
            return
        sc, out = p.out
        rp = {"kind": "c04", "scene": case["scene"]}
        if isinstance(out, Exception):
            C.obligations.append({"name": f"p{C.paths}.returns", "status": "sat", "note": f"raised {type(out).__name__}: {out}"})
            C.oblige(f"p{C.paths}.raise-witness", p.pc + sc.assume, z3.BoolVal(True),
                     on_model=lambda env: {"key": f"C04|getBH_level2|raises|{case['scene']}", "replay": dict(rp, env=env)}, inputs=sc.inputs, nice=False, quat_groups=sc.quat_groups)
            return
        pairs, err = L2.compare_full(sc, out, "B", pixel_agg=agg)
        if err:
            C.obligations.append({"name": f"p{C.paths}.shape", "status": "sat", "note": err})
            C.candidates.append({"key": f"C04|getBH_level2|shape|{case['scene']}", "replay": dict(rp, env={})})
            return
        viol = z3.Or(*[z3.Or(*[toz(g[c]) != toz(e[c]) for c in range(3)]) for _, g, e in pairs])
        C.oblige(f"p{C.paths}.sensor-frame-field", p.pc + sc.assume, viol,
                 on_model=lambda env: {"key": f"C04|getBH_level2|values|{case['scene']}", "replay": dict(rp, env=env)},
                 inputs=sc.inputs, nice=False, quat_groups=sc.quat_groups,
                 sample=f"{len(pairs)} elements: out[l,m,k,pix] == q_k[m]^-1 * Field_l(q_k[m]*pix + p_k[m]) (x negated if left-handed), pixel_agg={agg}")

    paths = explore(run, max_paths=200 if C.tier == "quick" else 1500, on_path=on_path)
    C.decisions += sum(len(p.decisions) for p in paths)
    if explore.truncated:
        C.note_inconclusive("path-budget", "path budget hit")
    if case["scene"] == "rotating-path":
        # the three back-rotation paths must all have been reached by feasible paths
        from magpylib._src.fields import field_wrap_BH as W
        from magpylib._src import utility as U

        src, start = inspect.getsourcelines(W.getBH_level2)
        ln_unit = next(start + i for i, l in enumerate(src) if "r == unitQ" in l)
        src2, start2 = inspect.getsourcelines(U.check_static_sensor_orient)
        ln_static = next(start2 + i for i, l in enumerate(src2) if "np.all(rot == rot[0])" in l)
        C.require_coverage([(f"field_wrap_BH.py:{ln_unit}", True), (f"field_wrap_BH.py:{ln_unit}", False),
                            (f"utility.py:{ln_static}", True), (f"utility.py:{ln_static}", False)])
    return C.result()


def replay(spec):
    sspec, agg = _scene(spec["scene"])
    env = spec.get("env") or {}
    sc = L2.Scene(sspec, symbolic=False, env=_rand_env(env))
    try:
        out = np.asarray(sc.call("B", squeeze=False, pixel_agg=agg), dtype=float)
    except Exception as e:  # noqa
        return True, f"scene {spec['scene']} pixel_agg={agg}: valid call raised {type(e).__name__}: {str(e)[:200]}"
    pairs, err = L2.compare_full(sc, out, "B", pixel_agg=agg)
    if err:
        return True, err
    bad = [(d, g.tolist(), np.asarray(e, dtype=float).tolist()) for d, g, e in pairs if not rel_close(g, np.asarray(e, dtype=float), 1e-9, 1e-12)]
    if bad:
        return True, f"scene {spec['scene']} pixel_agg={agg}: element {bad[0][0]} got {bad[0][1]} expected {bad[0][2]} ({len(bad)}/{len(pairs)} differ)"
    return False, "all elements agree with the reference in doubles"


def _rand_env(env):
    if env:
        return env
    rng = np.random.default_rng(5)

    class _E(dict):
        def get(self, k, d=None):
            if k not in self:
                self[k] = float(rng.normal())
            return self[k]

    return _E()
