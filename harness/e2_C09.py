"""C09 (E2 part): move / rotate / rotate_from_* / position= / orientation= / reset_path follow the documented path semantics.

The real methods run through the real validators, path_padding, np.pad and the (modelled) Rotation algebra on an object
whose path of length N has symbolic contents; every new path entry is compared with a reference model of the
documented rule (which old entry it derives from, left composition q_in*q_old, position q_in(p-a)+a) for all reals.
One step from an arbitrary state covers histories of any length for paths up to the stated bound.
"""
import itertools

import numpy as np
import z3

from symnum import CTX, S, SymRot, install, oarr, symarr, sym, toz, explore, symrot
from .common import Case, neq_any, neq_rot, rel_close

PROPERTY = "C09"
FUNCTIONS = [
    "magpylib._src.obj_classes.class_BaseTransform:apply_move",
    "magpylib._src.obj_classes.class_BaseTransform:apply_rotation",
    "magpylib._src.obj_classes.class_BaseTransform:path_padding",
    "magpylib._src.obj_classes.class_BaseTransform:path_padding_param",
    "magpylib._src.obj_classes.class_BaseTransform:multi_anchor_behavior",
    "magpylib._src.obj_classes.class_BaseTransform:BaseTransform.move",
    "magpylib._src.obj_classes.class_BaseTransform:BaseTransform.rotate",
    "magpylib._src.obj_classes.class_BaseTransform:BaseTransform.rotate_from_angax",
    "magpylib._src.obj_classes.class_BaseTransform:BaseTransform.rotate_from_rotvec",
    "magpylib._src.obj_classes.class_BaseTransform:BaseTransform.rotate_from_euler",
    "magpylib._src.obj_classes.class_BaseTransform:BaseTransform.rotate_from_matrix",
    "magpylib._src.obj_classes.class_BaseTransform:BaseTransform.rotate_from_mrp",
    "magpylib._src.obj_classes.class_BaseTransform:BaseTransform.rotate_from_quat",
    "magpylib._src.obj_classes.class_BaseGeo:BaseGeo.position",
    "magpylib._src.obj_classes.class_BaseGeo:BaseGeo.orientation",
    "magpylib._src.obj_classes.class_BaseGeo:BaseGeo.reset_path",
    "magpylib._src.obj_classes.class_BaseGeo:pad_slice_path",
    "magpylib._src.input_checks:check_format_input_vector",
    "magpylib._src.input_checks:check_format_input_anchor",
    "magpylib._src.input_checks:check_format_input_orientation",
    "magpylib._src.input_checks:check_format_input_axis",
    "magpylib._src.input_checks:check_format_input_angle",
    "magpylib._src.obj_classes.class_BaseGeo:BaseGeo._init_position_orientation",
]
BOUNDS = [
    "constructor: Sensor / Dipole / Collection built with position of length 1-3 and 1-3 symbolic unit quaternions (any sign of the scalar part)",
    "old path length N in 1..3 (quick) / 1..5 (thorough), input length in {scalar,1,2,3} (thorough: ..5), start in [-5,5] (quick) / [-9,9] (thorough) plus 'auto'; "
    "anchors {None, 0, single vector, per-step, the object's own .position view}; path contents, displacements, rotations, anchors symbolic (all reals / unit quaternions)",
    "one operation from an arbitrary state (inductive step); longer paths outside the claim",
]
CUTS = [
    "scipy Rotation replaced by SymRot; from_rotvec / from_euler / from_matrix / from_mrp are uninterpreted functions of their arguments "
    "(rotate_from_* are compared with rotate() applied to the same opaque rotation)",
]
ASSUMPTIONS = ["real arithmetic; unit norm of all input quaternions"]
NOT_DECIDED = ["the internal correctness of SciPy's from_rotvec/from_euler/from_matrix/from_mrp conversions (compiled code)"]

INLENS = [None, 1, 2, 3]


def _starts(tier):
    r = range(-5, 6) if tier == "quick" else range(-9, 10)
    return list(r) + ["auto"]


def _Ns(tier):
    return [1, 2, 3] if tier == "quick" else [1, 2, 3, 4, 5]


def cases(tier, seed):
    out = []
    for op in ("move", "rotate-noanchor", "rotate-anchor0", "rotate-anchor1", "rotate-anchorN", "rotate-anchorOwn"):
        for N in _Ns(tier):
            out.append({"id": f"{op}-N{N}", "kind": "step", "op": op, "N": N, "weight": 3})
    for N in _Ns(tier):
        out.append({"id": f"setters-N{N}", "kind": "setters", "N": N, "weight": 2})
    out.append({"id": "constructor", "kind": "ctor", "weight": 2})
    out.append({"id": "rotate_from-forms", "kind": "forms", "weight": 3})
    out.append({"id": "rejected-calls", "kind": "rejected", "weight": 1})
    return out


# ----------------------------------------------------------------------------- reference model (documented rule)
def ref_layout(N, n_in, start):
    """n_in None = scalar input.  returns (new length L, src index per new index, indices the input applies to, first index)"""
    lenip = 1 if n_in is None else n_in
    if start == "auto":
        start = 0 if n_in is None else N
    s = N + start if start < 0 else start
    pb = max(0, -s)
    s = max(0, s)
    pe = max(0, s + lenip - (N + pb))
    L = N + pb + pe
    src = [min(max(i - pb, 0), N - 1) for i in range(L)]
    rng = list(range(s, L)) if n_in is None else list(range(s, s + lenip))
    return L, src, rng, s


def _mk_obj(N, name="o"):
    import magpylib

    obj = magpylib.Sensor()
    P = symarr(name + "p", (N, 3))
    q = symarr(name + "q", (N, 4))
    Q = SymRot(q, False)
    obj._position = P.copy()
    obj._orientation = SymRot(q.copy(), False)
    return obj, P, Q, Q.unit(), list(P.ravel()) + list(q.ravel()), [list(r) for r in q]


def _state_ok(obj):
    return len(obj._position) == len(obj._orientation) >= 1


def run_case(case, info):
    C = Case(case, info)
    {"step": _step, "setters": _setters, "forms": _forms, "rejected": _rejected, "ctor": _ctor}[case["kind"]](C)
    return C.result()


def _step(C):
    op, N = C.case["op"], C.case["N"]
    starts = _starts(C.tier)
    inlens = INLENS if C.tier == "quick" else INLENS + [4, 5]
    for n_in, start in itertools.product(inlens, starts):
        CTX.reset([])
        obj, P, Q, unit, inputs, qg = _mk_obj(N)
        tag = f"in={n_in},start={start}"
        rp = {"kind": "step", "op": op, "N": N, "n_in": n_in, "start": start}
        try:
            if op == "move":
                d = symarr("d", (3,)) if n_in is None else symarr("d", (n_in, 3))
                inputs += list(d.ravel())
                obj.move(d.copy(), start=start)
                n_eff = n_in
                rot = anchor = None
            else:
                rot, ru = symrot("r", n_in)
                unit = unit + ru
                inputs += list(rot.q.ravel())
                qg = qg + [list(r) for r in rot.q]
                if op == "rotate-noanchor":
                    anchor, akw, n_a = None, None, None
                elif op == "rotate-anchor0":
                    anchor, akw, n_a = oarr(np.zeros(3)), 0, None
                elif op == "rotate-anchor1":
                    anchor = symarr("a", (3,))
                    akw, n_a = anchor.copy(), None
                    inputs += list(anchor)
                elif op == "rotate-anchorOwn":
                    # the anchor argument is the object's own .position (the getter hands out a view of the path that is being rotated)
                    if N > 1 and n_in != N:
                        continue
                    anchor = P[0].copy() if N == 1 else P.copy()
                    akw, n_a = obj.position, (None if N == 1 else N)
                else:
                    n_a = 2 if n_in != 2 else 3  # a per-step anchor of a different length than the rotation input
                    anchor = symarr("a", (n_a, 3))
                    akw = anchor.copy()
                    inputs += list(anchor.ravel())
                obj.rotate(rot, anchor=akw, start=start)
                n_eff = n_in if n_a is None else max(n_a, n_in or 1)
        except Exception as e:  # noqa
            C.obligations.append({"name": f"{tag}.returns", "status": "sat", "note": f"raised {type(e).__name__}: {e}"})
            C.candidates.append({"key": f"C09|{op}|raises", "replay": dict(rp, env={})})
            continue
        C.paths += 1
        C.decisions += len(CTX.trace)
        L, src, rng, s = ref_layout(N, n_eff, start)
        newP = np.asarray(obj._position, dtype=object)
        newQ = np.asarray(obj._orientation.as_quat(), dtype=object)
        if newP.shape != (L, 3) or newQ.shape != (L, 4):
            C.obligations.append({"name": f"{tag}.length", "status": "sat", "note": f"path lengths {newP.shape[0]},{newQ.shape[0]} expected {L}"})
            C.candidates.append({"key": f"C09|{op}|length", "replay": dict(rp, env={})})
            continue
        terms = []
        for i in range(L):
            p_old, q_old = P[src[i]], Q[src[i]]
            if i in rng:
                j = 0 if n_eff is None else i - s
                if op == "move":
                    dj = d if n_in is None else d[j]
                    ep, eq = p_old + dj, q_old.as_quat()
                else:
                    rj = rot if n_in is None else rot[min(j, n_in - 1)]
                    eq = (rj * q_old).as_quat()
                    if anchor is None:
                        ep = p_old
                    else:
                        aj = anchor if anchor.ndim == 1 else anchor[min(j, len(anchor) - 1)]
                        ep = rj.apply(p_old - aj) + aj
            else:
                ep, eq = p_old, q_old.as_quat()
            terms.append(neq_any(newP[i], ep))
            terms.append(neq_rot(newQ[i], eq))

        def on_model(env, rp=rp):
            return {"key": f"C09|{op}|values", "replay": dict(rp, env=env)}

        C.concrete_trace(replay, dict(rp, env={}), f"C09|{op}|values|concrete")
        C.oblige(f"{tag}.path-semantics", CTX.pc + unit, z3.Or(*terms), on_model=on_model, inputs=inputs, nice=False, quat_groups=qg,
                 sample=f"{op} N={N} input length {n_in} start={start}: new path of length {L}, entry i derives from old entry {src}, input applied on {rng}")


def _setters(C):
    N = C.case["N"]
    for M in (1, 2, 3, 4):
        for which in ("position", "orientation", "orientation=None", "reset_path"):
            if which in ("orientation=None", "reset_path") and M > 1:
                continue
            CTX.reset([])
            obj, P, Q, unit, inputs, qg = _mk_obj(N)
            rp = {"kind": "setter", "which": which, "N": N, "M": M}
            try:
                if which == "position":
                    newP = symarr("np", (M, 3))
                    inputs += list(newP.ravel())
                    obj.position = newP.copy() if M > 1 else newP[0].copy()
                    expP = newP
                    expQ = np.concatenate([Q.q, np.tile(Q.q[-1], (M - N, 1))]) if M >= N else Q.q[N - M:]
                elif which == "orientation":
                    nq, nu = symrot("nq", M)
                    unit = unit + nu
                    inputs += list(nq.q.ravel())
                    qg = qg + [list(r) for r in nq.q]
                    obj.orientation = nq if M > 1 else nq[0]
                    expQ = nq.q
                    expP = np.concatenate([P, np.tile(P[-1], (M - N, 1))]) if M >= N else P[N - M:]
                elif which == "orientation=None":
                    obj.orientation = None
                    expQ = oarr(np.array([[0, 0, 0, 1.0]]))
                    expP = P[N - 1:]
                else:
                    obj.reset_path()
                    expQ = oarr(np.array([[0, 0, 0, 1.0]]))
                    expP = oarr(np.zeros((1, 3)))
            except Exception as e:  # noqa
                C.obligations.append({"name": f"{which}.M{M}.returns", "status": "sat", "note": f"raised {type(e).__name__}: {e}"})
                C.candidates.append({"key": f"C09|{which}|raises", "replay": dict(rp, env={})})
                continue
            C.paths += 1
            gotP = np.asarray(obj._position, dtype=object)
            gotQ = np.asarray(obj._orientation.as_quat(), dtype=object)
            if gotP.shape != np.shape(expP) or gotQ.shape != np.shape(expQ):
                C.obligations.append({"name": f"{which}.M{M}.length", "status": "sat", "note": f"{gotP.shape},{gotQ.shape} expected {np.shape(expP)},{np.shape(expQ)}"})
                C.candidates.append({"key": f"C09|{which}|length", "replay": dict(rp, env={})})
                continue
            C.concrete_trace(replay, dict(rp, env={}), f"C09|{which}|values|concrete")
            C.oblige(f"{which}.N{N}->M{M}", CTX.pc + unit, z3.Or(neq_any(gotP, expP), neq_rot(gotQ, expQ)),
                     on_model=lambda env, rp=rp: {"key": f"C09|{which}|values", "replay": dict(rp, env=env)}, inputs=inputs, nice=False, quat_groups=qg,
                     sample=f"{which} with path length {M} on an object of path length {N}: the other path is edge-padded / end-sliced")


def _ctor(C):
    """position / orientation given to the constructor are the stored path: same rotation (any quaternion sign, any scalar part), the shorter of
    the two edge-padded to the longer, for Sensor, a source and a Collection"""
    import magpylib

    makers = {"Sensor": lambda **kw: magpylib.Sensor(**kw), "Dipole": lambda **kw: magpylib.misc.Dipole(moment=(1, 2, 3), **kw),
              "Collection": lambda **kw: magpylib.Collection(**kw)}
    for cls, mk in makers.items():
        for NP, NQ in ((1, 1), (2, 2), (3, 1), (1, 3), (2, 3)):
            if cls != "Sensor" and (NP, NQ) not in ((1, 1), (2, 3)):
                continue
            CTX.reset([])
            P = symarr("cp", (NP, 3))
            rot, unit = symrot("cq", None if NQ == 1 else NQ)
            inputs = list(P.ravel()) + list(rot.q.ravel())
            rp = {"kind": "ctor", "cls": cls, "NP": NP, "NQ": NQ}
            C.concrete_trace(replay, dict(rp, env={}), f"C09|constructor|{cls}|concrete")
            try:
                obj = mk(position=P.copy() if NP > 1 else P[0].copy(), orientation=rot)
            except Exception as e:  # noqa
                C.obligations.append({"name": f"ctor.{cls}.{NP}.{NQ}.returns", "status": "sat", "note": f"raised {type(e).__name__}: {e}"})
                C.candidates.append({"key": f"C09|constructor|{cls}|raises", "replay": dict(rp, env={})})
                continue
            C.paths += 1
            L = max(NP, NQ)
            gotP = np.asarray(obj._position, dtype=object)
            gotQ = np.asarray(obj._orientation.as_quat(), dtype=object).reshape(-1, 4)
            if gotP.shape != (L, 3) or gotQ.shape != (L, 4):
                C.obligations.append({"name": f"ctor.{cls}.{NP}.{NQ}.length", "status": "sat", "note": f"{gotP.shape},{gotQ.shape} expected length {L}"})
                C.candidates.append({"key": f"C09|constructor|{cls}|length", "replay": dict(rp, env={})})
                continue
            expP = np.array([P[min(i, NP - 1)] for i in range(L)], dtype=object)
            expQ = np.array([rot.q[min(i, NQ - 1)] for i in range(L)], dtype=object)
            C.oblige(f"ctor.{cls}.pos{NP}.ori{NQ}", CTX.pc + unit, z3.Or(neq_any(gotP, expP), neq_rot(gotQ, expQ)), inputs=inputs, nice=False,
                     quat_groups=[list(r) for r in rot.q], key=f"C09|constructor|{cls}",
                     on_model=lambda env, rp=rp: {"key": f"C09|constructor|{rp['cls']}", "replay": dict(rp, env=env)},
                     sample=f"{cls}(position=({NP},3), orientation={NQ} rotations): stored path of length {L} equals the input, shorter one edge-padded")


def _forms(C):
    """every rotate_from_* equals rotate() with the equivalent rotation (degrees / radians, anchors, start)"""
    import magpylib

    N = 2
    combos = []
    for deg in (True, False):
        combos += [("rotvec", deg, None), ("rotvec", deg, 2), ("angax", deg, None), ("angax", deg, 2), ("euler", deg, None), ("euler", deg, 2), ("eulerI", deg, None)]
    combos += [("matrix", None, None), ("matrix", None, 2), ("mrp", None, None), ("mrp", None, 2), ("quat", None, None), ("quat", None, 2)]
    # a vector input of length 1 is a vector input (applied to one entry, appended by default), not a scalar
    combos += [("rotvec", True, 1), ("angax", True, 1), ("euler", True, 1), ("matrix", None, 1), ("mrp", None, 1), ("quat", None, 1)]
    for form, deg, n_in in combos:
        for start, anchor_kind in (("auto", "none"), (1, "single"), (-1, "zero")):
            def run(form=form, deg=deg, n_in=n_in, start=start, anchor_kind=anchor_kind):
                o1, P, Q, unit, inputs, qg = _mk_obj(N, "o")
                o2 = magpylib.Sensor()
                o2._position = P.copy()
                o2._orientation = SymRot(Q.q.copy(), False)
                anchor = {"none": None, "zero": 0, "single": symarr("a", (3,))}[anchor_kind]
                a1 = anchor.copy() if hasattr(anchor, "copy") else anchor
                a2 = anchor.copy() if hasattr(anchor, "copy") else anchor
                if form == "rotvec":
                    v = symarr("v", (3,)) if n_in is None else symarr("v", (n_in, 3))
                    o1.rotate_from_rotvec(v.copy(), anchor=a1, start=start, degrees=deg)
                    o2.rotate(SymRot.from_rotvec(v.copy(), degrees=deg), anchor=a2, start=start)
                elif form == "angax":
                    ax = symarr("ax", (3,))
                    CTX_pre_extra.append(z3.Or(*[toz(x) != 0 for x in ax]))
                    if n_in is None:
                        ang = 30.0
                        angr = ang / 180 * np.pi if deg else ang
                        nrm = (ax[0] * ax[0] + ax[1] * ax[1] + ax[2] * ax[2]).sqrt()
                        rv = np.array([ax[k] / nrm * angr for k in range(3)], dtype=object)
                    else:
                        ang = symarr("ang", (n_in,))
                        angr = ang / 180 * np.pi if deg else ang
                        nrm = (ax[0] * ax[0] + ax[1] * ax[1] + ax[2] * ax[2]).sqrt()
                        rv = np.array([[ax[k] / nrm * angr[i] for k in range(3)] for i in range(n_in)], dtype=object)
                    o1.rotate_from_angax(ang.copy() if n_in else ang, ax.copy(), anchor=a1, start=start, degrees=deg)
                    o2.rotate(SymRot.from_rotvec(oarr(rv)), anchor=a2, start=start)
                elif form in ("euler", "eulerI"):
                    seq = ("XYZ" if form == "eulerI" else "xyz") if n_in is None else "z"  # upper case = intrinsic rotations
                    ang = symarr("e", (3,)) if n_in is None else symarr("e", (n_in, 1))  # (n,1): SciPy>=1.15 rejects (n,) for one axis
                    o1.rotate_from_euler(ang.copy(), seq, anchor=a1, start=start, degrees=deg)
                    o2.rotate(SymRot.from_euler(seq, ang.copy(), degrees=deg), anchor=a2, start=start)
                elif form == "matrix":
                    mtx = symarr("m", (3, 3) if n_in is None else (n_in, 3, 3))
                    o1.rotate_from_matrix(mtx.copy(), anchor=a1, start=start)
                    o2.rotate(SymRot.from_matrix(mtx.copy()), anchor=a2, start=start)
                elif form == "mrp":
                    v = symarr("v", (3,)) if n_in is None else symarr("v", (n_in, 3))
                    o1.rotate_from_mrp(v.copy(), anchor=a1, start=start)
                    o2.rotate(SymRot.from_mrp(v.copy()), anchor=a2, start=start)
                else:
                    r, ru = symrot("r", n_in)
                    unit = unit + ru
                    o1.rotate_from_quat(r.as_quat(), anchor=a1, start=start)
                    o2.rotate(r, anchor=a2, start=start)
                    qg = qg + [list(x) for x in r.q]
                return o1, o2, unit, qg

            CTX.pre = [z3.Or(*[z3.Real(f"ax_{k}") != 0 for k in range(3)])] if form == "angax" else []
            CTX_pre_extra = []
            tag = f"{form}.deg={deg}.n={n_in}.start={start}.anchor={anchor_kind}"

            params = {"deg": deg, "n_in": n_in, "start": start, "anchor": anchor_kind}

            def on_path(p, tag=tag, form=form, params=params):
                C.paths += 1
                if p.status != "ok":
                    C.note_inconclusive(tag, f"aborted: {p.out}")
                    return
                o1, o2, unit, qg = p.out
                if isinstance(o1, Exception):
                    return
                P1, Q1 = np.asarray(o1._position, dtype=object), np.asarray(o1._orientation.as_quat(), dtype=object)
                P2, Q2 = np.asarray(o2._position, dtype=object), np.asarray(o2._orientation.as_quat(), dtype=object)
                if P1.shape != P2.shape or Q1.shape != Q2.shape or not _state_ok(o1):
                    # the two objects end with different path lengths on this path: ask for a model of the path condition and replay it
                    pc_inputs = [z3.Real(n) for n in sorted({str(x) for e in p.pc for x in _free_inputs(e)})]
                    C.oblige(tag + f".length[{P1.shape} vs {P2.shape}]", p.pc + unit + CTX_pre_extra, z3.BoolVal(True), inputs=pc_inputs, nice=False, quat_groups=qg,
                             on_model=lambda env, form=form, params=params: {"key": f"C09|rotate_from_{form}|length", "replay": dict(params, kind="form", form=form, env=env)})
                    return
                viol = z3.Or(neq_any(P1, P2), neq_rot(Q1, Q2))
                assume = p.pc + unit + CTX_pre_extra
                viol, merged, failed = C.merge_uf(assume, viol, timeout=5000)
                all_inputs = [z3.Real(n) for n in sorted({str(x) for e in assume + [viol] for x in _free_inputs(e)})]
                C.oblige(tag, assume, viol, inputs=all_inputs, nice=False, key=f"C09|rotate_from_{form}|differs", quat_groups=qg,
                         on_model=lambda env, form=form, params=params: {"key": f"C09|rotate_from_{form}|differs", "replay": dict(params, kind="form", form=form, env=env)},
                         sample=f"rotate_from_{form}(...) leaves the object in the same state as rotate(R.from_{form}(...)) with the same anchor/start")

            try:
                paths = explore(run, max_paths=8, on_path=on_path)
                C.decisions += sum(len(p.decisions) for p in paths)
            except Exception as e:  # noqa
                C.obligations.append({"name": tag + ".returns", "status": "sat", "note": f"raised {type(e).__name__}: {e}"})
                C.candidates.append({"key": f"C09|rotate_from_{form}|raises", "replay": {"kind": "form", "form": form, "deg": deg, "n_in": n_in, "start": start, "anchor": anchor_kind}})


def _free_inputs(e):
    from symnum.core import consts_of

    acc, seen = {}, set()
    consts_of(e, acc, seen)
    return [x for x in acc.values() if "!" not in str(x) and z3.is_real(x)]


def _bad_calls():
    from scipy.spatial.transform import Rotation as R

    return [
        ("move-bad-start", lambda o, R_: o.move((1, 2, 3), start=1.5)),
        ("move-bad-start-str", lambda o, R_: o.move((1, 2, 3), start="end")),
        ("move-bad-shape", lambda o, R_: o.move((1, 2), start=0)),
        ("move-bad-shape2", lambda o, R_: o.move([(1, 2, 3, 4)] * 2)),
        ("move-bad-type", lambda o, R_: o.move("abc")),
        ("rotate-bad-rotation", lambda o, R_: o.rotate((0, 0, 1))),
        ("rotate-bad-anchor", lambda o, R_: o.rotate(R_.identity(), anchor=(1, 2))),
        ("rotate-bad-start", lambda o, R_: o.rotate(R_.identity(), anchor=0, start=None)),
        ("angax-zero-axis", lambda o, R_: o.rotate_from_angax(30, (0, 0, 0))),
        ("angax-bad-axis", lambda o, R_: o.rotate_from_angax(30, "w")),
        ("angax-bad-degrees", lambda o, R_: o.rotate_from_angax(30, "z", degrees=1)),
        ("angax-bad-angle", lambda o, R_: o.rotate_from_angax("x", "z")),
        ("position-bad-shape", lambda o, R_: setattr(o, "position", (1, 2))),
        ("position-bad-shape3", lambda o, R_: setattr(o, "position", [[(1, 2, 3)]])),
        ("orientation-bad-type", lambda o, R_: setattr(o, "orientation", (0, 0, 0, 1))),
    ]


def _rejected(C):
    for name, call in _bad_calls():
        CTX.reset([])
        obj, P, Q, unit, inputs, qg = _mk_obj(2)
        before_p, before_q = obj._position, obj._orientation
        try:
            call(obj, SymRot)
            raised = None
        except Exception as e:  # noqa
            raised = e
        C.paths += 1
        from magpylib._src.exceptions import MagpylibBadUserInput

        rp = {"kind": "rejected", "name": name}
        if not isinstance(raised, MagpylibBadUserInput):
            C.obligations.append({"name": name + ".rejected", "status": "sat", "note": f"expected MagpylibBadUserInput, got {type(raised).__name__}: {raised}"})
            C.candidates.append({"key": f"C09|rejected|{name}|error-type", "replay": rp})
            continue
        newP, newQ = np.asarray(obj._position, dtype=object), np.asarray(obj._orientation.as_quat(), dtype=object)
        if newP.shape != P.shape or newQ.shape != Q.q.shape:
            C.obligations.append({"name": name + ".unchanged", "status": "sat", "note": "path length changed by a rejected call"})
            C.candidates.append({"key": f"C09|rejected|{name}|state", "replay": rp})
            continue
        C.oblige(name + ".state-unchanged", CTX.pc + unit, z3.Or(neq_any(newP, P), neq_rot(newQ, Q.q)),
                 on_model=lambda env, rp=rp: {"key": f"C09|rejected|{rp['name']}|state", "replay": rp}, inputs=inputs, nice=False,
                 sample=f"rejected call {name} raises MagpylibBadUserInput and leaves position/orientation terms unchanged")


# ----------------------------------------------------------------------------- replay (plain library, doubles)
def _float_obj(N, env, name="o"):
    import magpylib
    from scipy.spatial.transform import Rotation as R

    rng = np.random.default_rng(17)
    g = lambda k: env[k] if env.get(k) is not None else float(rng.normal())
    P = np.array([[g(f"{name}p_{i}_{c}") for c in range(3)] for i in range(N)])
    q = np.array([[g(f"{name}q_{i}_{c}") for c in range(4)] for i in range(N)])
    q = q / np.linalg.norm(q, axis=1)[:, None]
    obj = magpylib.Sensor(position=P, orientation=R.from_quat(q))
    return obj, P, R.from_quat(q), g


def replay(spec):
    from scipy.spatial.transform import Rotation as R

    env = spec.get("env") or {}
    kind = spec["kind"]
    if kind == "step":
        op, N, n_in, start = spec["op"], spec["N"], spec["n_in"], spec["start"]
        obj, P, Q, g = _float_obj(N, env)
        try:
            if op == "move":
                d = np.array([g(f"d_{c}") for c in range(3)]) if n_in is None else np.array([[g(f"d_{i}_{c}") for c in range(3)] for i in range(n_in)])
                obj.move(d, start=start)
                n_eff, rot, anchor = n_in, None, None
            else:
                if n_in is None:
                    rq = np.array([g(f"r_{c}") for c in range(4)])
                else:
                    rq = np.array([[g(f"r_{i}_{c}") for c in range(4)] for i in range(n_in)])
                rq = rq / np.linalg.norm(rq, axis=-1, keepdims=True)
                rot = R.from_quat(rq)
                n_a = None
                if op == "rotate-noanchor":
                    anchor, akw = None, None
                elif op == "rotate-anchor0":
                    anchor, akw = np.zeros(3), 0
                elif op == "rotate-anchor1":
                    anchor = np.array([g(f"a_{c}") for c in range(3)])
                    akw = anchor
                elif op == "rotate-anchorOwn":
                    anchor = P[0].copy() if N == 1 else P.copy()
                    akw, n_a = obj.position, (None if N == 1 else N)
                else:
                    n_a = 2 if n_in != 2 else 3
                    anchor = np.array([[g(f"a_{i}_{c}") for c in range(3)] for i in range(n_a)])
                    akw = anchor
                obj.rotate(rot, anchor=akw, start=start)
                n_eff = n_in if n_a is None else max(n_a, n_in or 1)
        except Exception as e:  # noqa
            return True, f"{op} N={N} n_in={n_in} start={start}: valid call raised {type(e).__name__}: {e}"
        L, src, rng_, s = ref_layout(N, n_eff, start)
        newP, newQ = obj._position, obj._orientation
        if newP.shape != (L, 3) or len(newQ) != L:
            return True, f"{op} N={N} n_in={n_in} start={start}: path lengths {newP.shape[0]},{len(newQ)} expected {L}"
        for i in range(L):
            p_old, q_old = P[src[i]], Q[src[i]]
            if i in rng_:
                j = 0 if n_eff is None else i - s
                if op == "move":
                    ep, eq = p_old + (d if n_in is None else d[j]), q_old
                else:
                    rj = rot if n_in is None else rot[min(j, n_in - 1)]
                    eq = rj * q_old
                    if anchor is None:
                        ep = p_old
                    else:
                        aj = anchor if anchor.ndim == 1 else anchor[min(j, len(anchor) - 1)]
                        ep = rj.apply(p_old - aj) + aj
            else:
                ep, eq = p_old, q_old
            if not rel_close(newP[i], ep, 1e-9, 1e-12) or (newQ[i] * eq.inv()).magnitude() > 1e-9:
                return True, f"{op} N={N} n_in={n_in} start={start}: entry {i} is pos {newP[i].tolist()} expected {np.asarray(ep).tolist()} (derives from old entry {src[i]}, input applies on {rng_})"
        return False, "path semantics hold in doubles"
    if kind == "ctor":
        import magpylib

        rng = np.random.default_rng(29)
        g = lambda k: env[k] if env.get(k) is not None else float(rng.normal())
        NP, NQ, cls = spec["NP"], spec["NQ"], spec["cls"]
        mk = {"Sensor": lambda **kw: magpylib.Sensor(**kw), "Dipole": lambda **kw: magpylib.misc.Dipole(moment=(1, 2, 3), **kw),
              "Collection": lambda **kw: magpylib.Collection(**kw)}[cls]
        P = np.array([[g(f"cp_{i}_{c}") for c in range(3)] for i in range(NP)])
        msgs = []
        # the model's quaternion and, in any case, quaternions with negative scalar part / rotations beyond half a turn
        qs = [np.array([[g(f"cq_{i}_{c}") if NQ > 1 else g(f"cq_{c}") for c in range(4)] for i in range(NQ)])]
        qs.append(np.array([[0.5, -0.5, 0.5, -0.5], [0.1, 0.2, 0.3, -0.9], [0.6, 0.0, 0.0, 0.8]][:NQ] + [[0.0, 0.6, 0.0, -0.8]] * max(0, NQ - 3)))
        for q in qs:
            q = q / np.linalg.norm(q, axis=1)[:, None]
            rot = R.from_quat(q if NQ > 1 else q[0])
            try:
                obj = mk(position=P if NP > 1 else P[0], orientation=rot)
            except Exception as e:  # noqa
                return True, f"{cls}(position ({NP},3), orientation {NQ}) raised {type(e).__name__}: {e}"
            L = max(NP, NQ)
            expP = np.array([P[min(i, NP - 1)] for i in range(L)])
            expQ = R.from_quat(np.array([q[min(i, NQ - 1)] for i in range(L)]))
            if obj._position.shape != (L, 3) or len(obj._orientation) != L:
                msgs.append(f"path length {obj._position.shape[0]},{len(obj._orientation)} expected {L}")
            elif not np.array_equal(obj._position, expP) or np.max((obj._orientation * expQ.inv()).magnitude()) > 1e-9:
                msgs.append(f"{cls}(position={P.tolist()}, orientation=quat {q.tolist()}): stored position {obj._position.tolist()}, stored quaternions "
                            f"{obj._orientation.as_quat().tolist()}")
        return bool(msgs), "; ".join(msgs[:1]) or "constructor stores position and orientation faithfully"
    if kind == "setter":
        which, N, M = spec["which"], spec["N"], spec["M"]
        obj, P, Q, g = _float_obj(N, env)
        Qq = Q.as_quat()
        try:
            if which == "position":
                newP = np.array([[g(f"np_{i}_{c}") for c in range(3)] for i in range(M)])
                obj.position = newP if M > 1 else newP[0]
                expP = newP
                expQ = np.concatenate([Qq, np.tile(Qq[-1], (M - N, 1))]) if M >= N else Qq[N - M:]
            elif which == "orientation":
                nq = np.array([[g(f"nq_{i}_{c}") for c in range(4)] for i in range(M)])
                nq = nq / np.linalg.norm(nq, axis=1)[:, None]
                obj.orientation = R.from_quat(nq) if M > 1 else R.from_quat(nq[0])
                expQ = nq
                expP = np.concatenate([P, np.tile(P[-1], (M - N, 1))]) if M >= N else P[N - M:]
            elif which == "orientation=None":
                obj.orientation = None
                expQ, expP = np.array([[0, 0, 0, 1.0]]), P[N - 1:]
            else:
                obj.reset_path()
                expQ, expP = np.array([[0, 0, 0, 1.0]]), np.zeros((1, 3))
        except Exception as e:  # noqa
            return True, f"{which} N={N} M={M}: raised {type(e).__name__}: {e}"
        gotP, gotQ = obj._position, obj._orientation
        if gotP.shape != expP.shape or len(gotQ) != len(expQ):
            return True, f"{which} N={N} M={M}: lengths {gotP.shape[0]},{len(gotQ)} expected {len(expP)},{len(expQ)}"
        bad = not rel_close(gotP, expP, 1e-12, 1e-15) or np.max((gotQ * R.from_quat(expQ).inv()).magnitude()) > 1e-9
        return bad, f"{which} N={N} M={M}: position {gotP.tolist()} expected {expP.tolist()}"
    if kind == "rejected":
        import magpylib
        from magpylib._src.exceptions import MagpylibBadUserInput

        call = dict(_bad_calls())[spec["name"]]
        obj, P, Q, g = _float_obj(2, env)
        try:
            call(obj, R)
            raised = None
        except Exception as e:  # noqa
            raised = e
        if not isinstance(raised, MagpylibBadUserInput):
            return True, f"{spec['name']}: expected MagpylibBadUserInput, got {type(raised).__name__}: {raised}"
        bad = obj._position.shape != P.shape or not np.array_equal(obj._position, P) or len(obj._orientation) != 2 or \
            np.max((obj._orientation * Q.inv()).magnitude()) > 1e-12
        return bad, f"{spec['name']}: state after rejected call: position {obj._position.tolist()} (before {P.tolist()})"
    if kind == "form":
        return _replay_form(spec)
    raise ValueError(kind)


def _replay_form(spec):
    """concrete differential check of all rotate_from_* forms against rotate() (used when the symbolic comparison produced a candidate)"""
    import magpylib
    from scipy.spatial.transform import Rotation as R

    rng = np.random.default_rng(23)
    msgs = []
    env = spec.get("env") or {}
    if env and spec.get("form") in ("rotvec", "angax", "euler", "eulerI", "mrp") and "n_in" in spec:
        # the solver's model first: the same call with the model's values of the rotation input (e.g. an angle that is exactly zero)
        form, deg, n_in, start = spec["form"], spec.get("deg"), spec["n_in"], spec["start"]
        g = lambda k, d=0.0: float(env[k]) if env.get(k) is not None else d
        anchor = {"none": None, "zero": 0, "single": tuple(g(f"a_{c}", 0.25 * (c + 1)) for c in range(3))}[spec.get("anchor", "none")]
        P = np.array([[g(f"op_{i}_{c}", 0.5 * i - 0.3 * c) for c in range(3)] for i in range(2)])
        Q = R.random(2, random_state=5)
        mk = lambda: magpylib.Sensor(position=P, orientation=Q)
        vec = lambda nm, k: np.array([g(f"{nm}_{c}") for c in range(k)]) if n_in is None else np.array([[g(f"{nm}_{i}_{c}") for c in range(k)] for i in range(n_in)])
        try:
            if form == "rotvec":
                v = vec("v", 3)
                a, b = mk().rotate_from_rotvec(v, anchor=anchor, start=start, degrees=deg), mk().rotate(R.from_rotvec(v, degrees=deg), anchor=anchor, start=start)
            elif form == "mrp":
                v = vec("v", 3)
                a, b = mk().rotate_from_mrp(v, anchor=anchor, start=start), mk().rotate(R.from_mrp(v), anchor=anchor, start=start)
            elif form == "angax":
                ax = np.array([g(f"ax_{c}", 1.0) for c in range(3)])
                ax = ax if np.linalg.norm(ax) > 0 else np.array([0.0, 0.0, 1.0])
                ang = 30.0 if n_in is None else np.array([g(f"ang_{i}") for i in range(n_in)])
                angr = np.deg2rad(ang) if deg else ang
                rv = ax / np.linalg.norm(ax) * angr if n_in is None else np.outer(angr, ax / np.linalg.norm(ax))
                a, b = mk().rotate_from_angax(ang, ax, anchor=anchor, start=start, degrees=deg), mk().rotate(R.from_rotvec(rv), anchor=anchor, start=start)
            else:
                seq = ("XYZ" if form == "eulerI" else "xyz") if n_in is None else "z"
                e = vec("e", 3) if n_in is None else vec("e", 1)
                a, b = mk().rotate_from_euler(e, seq, anchor=anchor, start=start, degrees=deg), mk().rotate(R.from_euler(seq, e, degrees=deg), anchor=anchor, start=start)
            if a._position.shape != b._position.shape or not rel_close(a._position, b._position, 1e-9, 1e-12) or \
                    np.max((a._orientation * b._orientation.inv()).magnitude()) > 1e-9:
                msgs.append(f"rotate_from_{form}(degrees={deg}, start={start}, anchor={anchor}, n={n_in}) with the model's input values "
                            f"{ {k: v for k, v in env.items() if k.split('_')[0] in ('v', 'ang', 'ax', 'e')} } differs from rotate(R.from_{form}(...)): "
                            f"path lengths {len(a._position)} vs {len(b._position)}")
        except Exception as e:  # noqa
            return True, f"rotate_from_{form} raised {type(e).__name__}: {e}"
    for deg in (True, False):
        for start, anchor in (("auto", None), (1, (0.3, -0.2, 0.5)), (-1, 0)):
            for n_in in (None, 2, 1):
                P = rng.normal(size=(2, 3))
                Q = R.random(2, random_state=5)
                mk = lambda: magpylib.Sensor(position=P, orientation=Q)
                shape = (3,) if n_in is None else (n_in, 3)
                v = rng.normal(size=shape)
                pairs = []
                try:
                    pairs.append(("rotvec", mk().rotate_from_rotvec(v, anchor=anchor, start=start, degrees=deg), mk().rotate(R.from_rotvec(v, degrees=deg), anchor=anchor, start=start)))
                    ax = rng.normal(size=3)
                    ang = 30.0 if n_in is None else rng.normal(size=n_in) * 50
                    angr = np.deg2rad(ang) if deg else ang
                    rv = ax / np.linalg.norm(ax) * angr if n_in is None else np.outer(angr, ax / np.linalg.norm(ax))
                    pairs.append(("angax", mk().rotate_from_angax(ang, ax, anchor=anchor, start=start, degrees=deg), mk().rotate(R.from_rotvec(rv), anchor=anchor, start=start)))
                    seq, e = ("xyz", rng.normal(size=3)) if n_in is None else ("z", rng.normal(size=(n_in, 1)))
                    pairs.append(("euler", mk().rotate_from_euler(e, seq, anchor=anchor, start=start, degrees=deg), mk().rotate(R.from_euler(seq, e, degrees=deg), anchor=anchor, start=start)))
                    if n_in is None:
                        pairs.append(("euler(intrinsic XYZ)", mk().rotate_from_euler(e, "XYZ", anchor=anchor, start=start, degrees=deg),
                                      mk().rotate(R.from_euler("XYZ", e, degrees=deg), anchor=anchor, start=start)))
                    m = R.random(random_state=3).as_matrix() if n_in is None else R.random(n_in, random_state=3).as_matrix()
                    pairs.append(("matrix", mk().rotate_from_matrix(m, anchor=anchor, start=start), mk().rotate(R.from_matrix(m), anchor=anchor, start=start)))
                    pairs.append(("mrp", mk().rotate_from_mrp(v, anchor=anchor, start=start), mk().rotate(R.from_mrp(v), anchor=anchor, start=start)))
                    qq = R.random(random_state=4).as_quat() if n_in is None else R.random(n_in, random_state=4).as_quat()
                    pairs.append(("quat", mk().rotate_from_quat(qq, anchor=anchor, start=start), mk().rotate(R.from_quat(qq), anchor=anchor, start=start)))
                except Exception as e:  # noqa
                    return True, f"rotate_from_* raised {type(e).__name__}: {e}"
                for nm, a, b in pairs:
                    if a._position.shape != b._position.shape or not rel_close(a._position, b._position, 1e-9, 1e-12) or \
                            np.max((a._orientation * b._orientation.inv()).magnitude()) > 1e-9:
                        msgs.append(f"rotate_from_{nm}(degrees={deg}, start={start}, anchor={anchor}, n={n_in}) differs from rotate(R.from_{nm}(...))")
    return bool(msgs), "; ".join(msgs[:3]) or "all rotate_from_* forms agree with rotate() in doubles"
