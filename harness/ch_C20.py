"""C20 (decidable part): dictionary / precedence mechanics of the style system (E1: CrossHair)."""
from . import chlib

PROPERTY = "C20"
FILE = "harness/chx_C20.py"
FUNCTIONS = [
    "magpylib._src.defaults.defaults_utility:update_nested_dict",
    "magpylib._src.defaults.defaults_utility:magic_to_dict",
    "magpylib._src.defaults.defaults_utility:linearize_dict",
    "magpylib._src.defaults.defaults_utility:MagicProperties.update",
    "magpylib._src.style:get_style",
    "magpylib._src.utility:style_temp_edit",
]
BOUNDS = ["dictionaries with <=2-3 keys drawn by selectors from a 4-name alphabet, depth <=3, leaves from {None,0,1,2}; get_style precedence for the leaves opacity "
          "(magnet family) and path.line.width (sensor family) with each of the four sources from a 4-value list incl. None; three notations; two successive assignments",
          "style_temp_edit around a real Cuboid with the resolved style of a show() call: show kwarg present / absent, drawing returns or raises, copy on/off (symbolic booleans)",
          "reset / last-assignment / independence: 11 default leaves and 6 magnet-style leaves from committed lists (incl. magnetization.arrow.size, which has a deprecated alias), "
          "two values each, three notations, chosen by symbolic selectors; two successive updates; constructor style argument followed by an assignment",
          "one call mixing a nested dictionary and an underscore keyword (4-name alphabet); six valid non-leaf notations of a show() style keyword and four misspelled names"]
CUTS = []
ASSUMPTIONS = ["CrossHair 'Confirmed over all paths' within the per-condition timeout"]
NOT_DECIDED = ["the sweep over all several hundred style leaves and families, colour / linestyle validators (regex and lookup tables on strings): only the committed leaf lists are decided"]


def cases(tier, seed):
    return chlib.make_cases(FILE, tier, timeouts=(150, 900))


def run_case(case, info):
    return chlib.run_case(case, dict(info, pid=PROPERTY), "harness.chx_C20")


def replay(spec):
    return chlib.replay_call(spec)
