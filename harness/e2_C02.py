"""C02  B = mu0*H + J, J = mu0*M, J = polarization inside / 0 outside, J == 0 for currents, dipoles, triangles;
attribute level: polarization = mu0 * magnetization with the exported constant.

Engine E2 (SymNum): every BHJM_* wrapper is executed for the four fields on the same symbolic rows inside one path.
"""
import importlib

import numpy as np
import z3

from symnum import CTX, S, install, oarr, symarr, toz, explore, sym
from .common import Case, neq_any, rel_close
from .wrappers import WRAPPERS, apply_cuts

PROPERTY = "C02"
FUNCTIONS = [w.qual() for w in WRAPPERS.values()] + [
    "magpylib._src.obj_classes.class_BaseExcitations:BaseMagnet.polarization",
    "magpylib._src.obj_classes.class_BaseExcitations:BaseMagnet.magnetization",
    "magpylib._src.fields.field_BH_tetrahedron:point_inside",
    "magpylib._src.fields.field_BH_tetrahedron:check_chirality",
]
BOUNDS = [
    "rows per kernel call: 1 (quick) and 2 (thorough, and for wrappers with a batch-level early return)",
    "all real observers / dimensions / polarizations subject to the setter preconditions; no bound on magnitudes except "
    "CylinderSegment inside/outside obligation: r2,h in [1e-3,1e3], r1 = 0 or r1 >= 1e-3 (absolute slabs of 1e-14 are C12's subject)",
    "Tetrahedron: vertices from a fixed rational list (both chiralities, a sliver), observer and polarization symbolic "
    "(12 symbolic vertex coordinates: the inverse-matrix inside test did not finish in 240 s)",
    "CylinderSegment azimuthal membership: 5 concrete sections x 6 concrete observer directions (>= 10 degrees from every section face), radius / z / r1 / r2 / h / polarization symbolic",
    "Polyline: segment endpoints from a fixed rational list (axis-aligned, oblique with rational length, degenerate), observer and current symbolic",
    "inside/outside: geometric definition with a relative margin 1e-9 of the body size around the surface",
]
CUTS = [
    "cel, ellipe, ellipk (cylinder), cel_iter (circle), magnet_cylinder_segment_Hfield, triangle_Bfield: uninterpreted per-row "
    "functions of their real arguments (the identity checked does not depend on their values)",
]
ASSUMPTIONS = [
    "real arithmetic semantics of the Python code (rounding not modelled); counterexamples are replayed in doubles",
    "mu_0 = scipy.constants.mu_0 as imported by the field modules, taken at its exact binary value",
]
NOT_DECIDED = ["TriangularMesh inside test (ray casting) is covered by C16/C13 harnesses, here the trimesh wrapper is not run"]

EPS = z3.RealVal("1/1000000000")
# polyline segments with rational length (fully symbolic endpoints: every feasibility query ends `unknown`)
TETRAS = {
    "unit": [(0, 0, 0), (1, 0, 0), (0, 1, 0), (0, 0, 1)],
    "unit-neg": [(0, 0, 0), (0, 1, 0), (1, 0, 0), (0, 0, 1)],  # negative chirality: exercises check_chirality
    "sliver": [(1, 2, -1), (3, 2, -1), (2, 5, -1), (2, 3, -0.75)],
    "flat": [(0, 0, 0), (1, 0, 0), (0, 1, 0), (1, 1, 0)],  # zero volume (accepted by the setter): no point is inside, J = 0 everywhere
}
POLY_SEGMENTS = {"axis": ((0, 0, 0), (1, 0, 0)), "oblique": ((1, -1, 0), (3, 0, 2)), "degenerate": ((1, 2, 3), (1, 2, 3))}
MAGNETS = ["cuboid", "cylinder", "sphere", "cylseg", "cylseg_internal", "tetra"]
OTHERS = ["triangle", "circle", "polyline", "dipole"]


def cases(tier, seed):
    out = []
    for name in MAGNETS + OTHERS:
        rows = [1]
        if name in ("cylseg", "cylseg_internal", "cylinder") or tier == "thorough":
            rows = [1, 2]
        if name in ("tetra", "cylseg_internal") and tier == "quick":
            rows = [1]
        for n in rows:
            if name == "polyline":
                for tag, (a, b) in POLY_SEGMENTS.items():
                    out.append({"id": f"{name}-{tag}-n{n}", "wrapper": name, "rows": n, "weight": 3,
                                "fixed": {"segment_start": [a] * n, "segment_end": [b] * n}})
                continue
            if name == "tetra":
                for tag, v in TETRAS.items():
                    out.append({"id": f"{name}-{tag}-n{n}", "wrapper": name, "rows": n, "weight": 3, "fixed": {"vertices": [v] * n}})
                continue
            out.append({"id": f"{name}-n{n}", "wrapper": name, "rows": n, "weight": 5 if n == 2 else 1})
    out.append({"id": "attr-setters", "wrapper": None, "weight": 1})
    # CylinderSegment: azimuthal membership decided geometrically for concrete section angles and observer directions (radius, z, dims symbolic)
    for sec in SECTIONS:
        out.append({"id": f"cylseg-section{sec[0]}_{sec[1]}", "wrapper": "cylseg-sections", "section": list(sec), "weight": 4})
    return out


# --------------------------------------------------------------------------- geometry oracles (harness side)
def zabs(e):
    return z3.If(e >= 0, e, -e)


def inside_outside(name, A, i):
    """returns (strictly_inside, strictly_outside, extra_assumptions) formulas or None"""
    o = [toz(A["observers"][i, k]) for k in range(3)]
    if name == "cuboid":
        h = [toz(A["dimension"][i, k]) / 2 for k in range(3)]
        ins = z3.And(*[zabs(o[k]) < h[k] * (1 - EPS) for k in range(3)])
        out = z3.Or(*[zabs(o[k]) > h[k] * (1 + EPS) for k in range(3)])
        return ins, out, []
    if name == "cylinder":
        r0 = toz(A["dimension"][i, 0]) / 2
        h2 = toz(A["dimension"][i, 1]) / 2
        rr = o[0] * o[0] + o[1] * o[1]
        ins = z3.And(rr < (r0 * (1 - EPS)) * (r0 * (1 - EPS)), zabs(o[2]) < h2 * (1 - EPS))
        out = z3.Or(rr > (r0 * (1 + EPS)) * (r0 * (1 + EPS)), zabs(o[2]) > h2 * (1 + EPS))
        return ins, out, []
    if name == "sphere":
        R = toz(A["diameter"][i]) / 2
        rr = o[0] * o[0] + o[1] * o[1] + o[2] * o[2]
        return rr < (R * (1 - EPS)) * (R * (1 - EPS)), rr > (R * (1 + EPS)) * (R * (1 + EPS)), []
    if name in ("cylseg", "cylseg_internal"):
        r1, r2, h = [toz(A["dimension"][i, k]) for k in range(3)]
        rr = o[0] * o[0] + o[1] * o[1]
        out = z3.Or(rr > (r2 * (1 + EPS)) * (r2 * (1 + EPS)), rr < (r1 * (1 - EPS)) * (r1 * (1 - EPS)), zabs(o[2]) > h / 2 * (1 + EPS))
        lo, hi = z3.RealVal("1/1000"), z3.RealVal(1000)
        extra = [r2 >= lo, r2 <= hi, h >= lo, h <= hi, z3.Or(r1 == 0, r1 >= lo)]
        if name == "cylseg_internal":
            # full-angle segments: inside is decidable geometrically
            full = toz(A["dimension"][i, 4]) - toz(A["dimension"][i, 3]) == 360
            ins = z3.And(full, rr < (r2 * (1 - EPS)) * (r2 * (1 - EPS)), rr > (r1 * (1 + EPS)) * (r1 * (1 + EPS)), zabs(o[2]) < h / 2 * (1 - EPS))
            return ins, out, extra
        return None, out, extra
    if name == "tetra":
        v = [[toz(A["vertices"][i, k, c]) for c in range(3)] for k in range(4)]

        def det(a, b, c):
            return a[0] * (b[1] * c[2] - b[2] * c[1]) - a[1] * (b[0] * c[2] - b[2] * c[0]) + a[2] * (b[0] * c[1] - b[1] * c[0])

        e = [[v[k][c] - v[0][c] for c in range(3)] for k in (1, 2, 3)]
        p = [o[c] - v[0][c] for c in range(3)]
        D = det(*e)
        if z3.is_true(z3.simplify(D == 0)):
            return z3.BoolVal(False), z3.BoolVal(True), []  # a flat tetrahedron has no inside
        l1, l2, l3 = det(p, e[1], e[2]), det(e[0], p, e[2]), det(e[0], e[1], p)
        # barycentric coordinates lambda_k = l_k / D  (Cramer); multiply through by sign(D)
        sgn = z3.If(D > 0, z3.RealVal(1), z3.RealVal(-1))
        Dp = D * sgn
        ls = [l1 * sgn, l2 * sgn, l3 * sgn]
        ins = z3.And(*[l > EPS * Dp for l in ls], ls[0] + ls[1] + ls[2] < (1 - EPS) * Dp)
        out = z3.Or(*[l < -EPS * Dp for l in ls], ls[0] + ls[1] + ls[2] > (1 + EPS) * Dp)
        return ins, out, []
    return None


SECTIONS = [(0, 90), (-270, -180), (-360, -240), (300, 360), (-120, 200)]
DIRECTIONS = [20, 70, 135, 200, 250, 340]  # observer azimuth in degrees; at least 10 degrees away from every section face above


def _in_section(alpha, sec):
    a = (alpha - sec[0]) % 360
    return 0 < a < (sec[1] - sec[0])


def _sections_case(C):
    w = WRAPPERS["cylseg"]
    apply_cuts(w.cuts)
    fn = w.fn()
    mod = importlib.import_module(w.module)
    MU0 = toz(mod.MU0)
    sec = C.case["section"]
    r1, r2, h, rho, zz = sym("r1"), sym("r2"), sym("h"), sym("rho"), sym("z")
    pol = symarr("polarization", (1, 3))
    lo, hi = z3.RealVal("1/1000"), z3.RealVal(1000)
    base_pre = [r1.z >= 0, r1.z < r2.z, h.z > 0, rho.z >= lo, r2.z >= lo, r2.z <= hi, h.z >= lo, h.z <= hi, z3.Or(r1.z == 0, r1.z >= lo)]
    dim = oarr(np.array([[r1, r2, h, S(toz(float(sec[0]))), S(toz(float(sec[1])))]], dtype=object))
    inputs = [r1, r2, h, rho, zz] + list(pol.ravel())
    for alpha in DIRECTIONS:
        ar = float(np.deg2rad(alpha))
        ar = ar if ar <= np.pi else ar - 2 * np.pi  # arctan2 range
        ca, sa = float(np.cos(ar)), float(np.sin(ar))
        obs = oarr(np.array([[rho * ca, rho * sa, zz]], dtype=object))

        def hook(fname, rel, ar=ar):
            # atan2(rho*sin a, rho*cos a) = a for rho > 0 (the observer direction is concrete)
            return [v == toz(ar) for v, _ in rel] if fname == "atan2" else []

        CTX.lemma_hook = hook
        CTX.pre = list(base_pre)
        inside_phi = _in_section(alpha, sec)

        def run():
            return {f: fn(field=f, observers=obs.copy(), dimension=dim.copy(), polarization=pol.copy()) for f in "BHJ"}

        def on_path(p, alpha=alpha, inside_phi=inside_phi):
            C.paths += 1
            if p.status != "ok":
                C.note_inconclusive(f"a{alpha}.p{C.paths}", f"aborted: {p.out}")
                return
            o = p.out
            M6 = z3.RealVal("1/1000000")  # margin 1e-6 of the body size: well above close()'s absolute 1e-12 for sizes >= 1e-3
            rad_in = z3.And(rho.z > r1.z * (1 + M6), rho.z < r2.z * (1 - M6), zabs(zz.z) < h.z / 2 * (1 - M6))
            rad_out = z3.Or(rho.z > r2.z * (1 + M6), rho.z < r1.z * (1 - M6), zabs(zz.z) > h.z / 2 * (1 + M6))

            def mk(kind):
                def on_model(env):
                    rr, z_ = env.get("rho", 1.0) or 1.0, env.get("z", 0.0) or 0.0
                    return {"key": f"C02|BHJM_cylinder_segment|section|{kind}",
                            "replay": {"kind": "section", "expect": kind, "section": sec, "alpha": alpha,
                                       "args": {"observers": [[rr * ca, rr * sa, z_]], "dimension": [[env.get("r1", 0.0) or 0.0, env.get("r2", 1.0) or 1.0, env.get("h", 1.0) or 1.0, sec[0], sec[1]]],
                                                "polarization": [[env.get(f"polarization_0_{k}", 0.0) or 0.0 for k in range(3)]]}}}

                return on_model

            Jv = [toz(o["J"][0, c]) for c in range(3)]
            if inside_phi:
                viol = z3.And(rad_in, z3.Or(*[Jv[c] != toz(pol[0, c]) for c in range(3)]))
                C.oblige(f"a{alpha}.p{C.paths}.J=pol-inside-section", p.pc, viol, on_model=mk("inside"), inputs=inputs, key="C02|BHJM_cylinder_segment|section|inside",
                         sample=f"CylinderSegment section {sec}, observer azimuth {alpha} deg (inside the section): J == polarization for r1<rho<r2, |z|<h/2, all reals")
                viol = z3.And(rad_out, z3.Or(*[Jv[c] != 0 for c in range(3)]))
            else:
                viol = z3.Or(*[Jv[c] != 0 for c in range(3)])
            C.oblige(f"a{alpha}.p{C.paths}.J=0-outside-section", p.pc, viol, on_model=mk("outside"), inputs=inputs, key="C02|BHJM_cylinder_segment|section|outside")
            defined = [o[f][0, c].d for f in "BH" for c in range(3)]
            bh = z3.Or(*[toz(o["B"][0, c]) != MU0 * toz(o["H"][0, c]) + Jv[c] for c in range(3)])
            C.oblige(f"a{alpha}.p{C.paths}.B=mu0H+J", p.pc + defined, bh, on_model=mk("B=mu0H+J"), inputs=inputs, key="C02|BHJM_cylinder_segment|section|B=mu0H+J")

        paths = explore(run, max_paths=60, on_path=on_path)
        C.decisions += sum(len(p.decisions) for p in paths)
    CTX.lemma_hook = None


def run_case(case, info):
    C = Case(case, info)
    if case["wrapper"] is None:
        _attr_case(C)
        return C.result()
    if case["wrapper"] == "cylseg-sections":
        _sections_case(C)
        return C.result()
    name = case["wrapper"]
    w = WRAPPERS[name]
    n = case["rows"]
    apply_cuts(w.cuts)
    fn = w.fn()
    A = w.sym_args(n)
    for k, v in case.get("fixed", {}).items():
        A[k] = oarr(np.array(v, dtype=float))
    pre = w.pre_all(A)
    if name == "tetra" and "flat" in case["id"]:
        pre = []  # the non-degeneracy precondition is what this case drops on purpose
    CTX.pre = list(pre)
    mod = importlib.import_module(w.module)
    MU0 = toz(mod.MU0)

    def run():
        return {f: fn(field=f, **{k: v.copy() for k, v in A.items()}, **w.extra_kw) for f in "BHJM"}

    inputs = w.inputs(A)

    def on_path(p):
        C.paths += 1
        if p.status != "ok":
            C.note_inconclusive(f"path{C.paths}", f"aborted: {p.out}")
            return
        o = p.out
        tag = f"p{C.paths}"

        def mk(kind):
            def on_model(env):
                fargs = w.env_to_float_args(env, A)
                return {
                    "key": f"C02|{w.func}|{kind}",
                    "replay": {"kind": kind, "wrapper": name, "args": {k: v.tolist() for k, v in fargs.items()}},
                }

            return on_model

        for i in range(n):
            defined = [o[f][i, c].d for f in "BH" for c in range(3)]
            bh = z3.Or(*[toz(o["B"][i, c]) != MU0 * toz(o["H"][i, c]) + toz(o["J"][i, c]) for c in range(3)])
            C.oblige(f"{tag}.r{i}.B=mu0H+J", p.pc + defined, bh, on_model=mk("B=mu0H+J"), inputs=inputs, key=f"C02|{w.func}|B=mu0H+J",
                     sample=f"{w.func}: on this path B[{i}] == mu0*H[{i}] + J[{i}] for all reals")
            jm = z3.Or(*[toz(o["J"][i, c]) != MU0 * toz(o["M"][i, c]) for c in range(3)])
            C.oblige(f"{tag}.r{i}.J=mu0M", p.pc, jm, on_model=mk("J=mu0M"), inputs=inputs, key=f"C02|{w.func}|J=mu0M")
            if not w.magnet:
                jz = z3.Or(*[toz(o["J"][i, c]) != 0 for c in range(3)])
                C.oblige(f"{tag}.r{i}.J=0", p.pc, jz, on_model=mk("J=0"), inputs=inputs, key=f"C02|{w.func}|J=0")
            else:
                io = inside_outside(name, A, i)
                if io is not None:
                    ins, out, extra = io
                    pol = A["polarization"]
                    if ins is not None:
                        viol = z3.And(ins, z3.Or(*[toz(o["J"][i, c]) != toz(pol[i, c]) for c in range(3)]))
                        C.oblige(f"{tag}.r{i}.J=pol-inside", p.pc + extra, viol, on_model=mk("J-inside"), inputs=inputs, key=f"C02|{w.func}|J-inside")
                    viol = z3.And(out, z3.Or(*[toz(o["J"][i, c]) != 0 for c in range(3)]))
                    C.oblige(f"{tag}.r{i}.J=0-outside", p.pc + extra, viol, on_model=mk("J-outside"), inputs=inputs, key=f"C02|{w.func}|J-outside")

    paths = explore(run, max_paths=300 if C.tier == "quick" else 3000, on_path=on_path, seeds=C.seed_envs(inputs, n=2))
    C.decisions += sum(len(p.decisions) for p in paths)
    if explore.truncated:
        C.note_inconclusive("path-budget", "path budget hit; remaining paths not explored")
    _validate(C, w, A, run)
    return C.result()


def _validate(C, w, A, run):
    """translator validation: concrete inputs through the symbolic encoding vs. the unpatched library"""
    from symnum import run_concrete
    from .common import evalf_arr

    rng = np.random.default_rng(7)
    n = len(next(iter(A.values())))
    for trial in range(3):
        fargs = _random_valid(w, n, rng)
        for k, v in C.case.get("fixed", {}).items():
            fargs[k] = np.array(v, dtype=float)
        env = {}
        for k, a in A.items():
            for idx in np.ndindex(*a.shape):
                if not z3.is_rational_value(toz(a[idx])):
                    env[str(toz(a[idx]))] = float(fargs[k][idx])
        try:
            out = run_concrete(run, env)
            got = {f: evalf_arr(out[f], env) for f in "BH"}
        except Exception as e:  # noqa
            C.note_inconclusive("translator-validation", f"{type(e).__name__}: {e}")
            continue
        install.uninstall()
        try:
            ref = {f: w.call_float(f, fargs) for f in "BH"}
        finally:
            install.install()
            apply_cuts(w.cuts)
        # (a flat tetrahedron's field is exact cancellation: compare the rounding noise with an absolute tolerance scaled to the H values)
        atol = {"B": 1e-12, "H": 1e-6} if "flat" in C.case["id"] else {"B": 1e-300, "H": 1e-300}
        ok = all(rel_close(got[f], ref[f], 1e-9, atol[f]) for f in "BH")
        if ok:
            C.validated += 1
        else:
            C.vacuous.append(f"translator validation mismatch for {w.func}: {got} vs {ref}")


def _random_valid(w, n, rng):
    out = {}
    for a, shp in w.args:
        out[a] = rng.normal(size=(n,) + tuple(shp))
    if "dimension" in out:
        out["dimension"] = np.abs(out["dimension"]) + 0.3
        if out["dimension"].shape[1] == 5:
            d = out["dimension"]
            d[:, 1] = d[:, 0] + 0.5 + np.abs(rng.normal(size=n))
            d[:, 3] = rng.uniform(-180, 0, size=n)
            d[:, 4] = d[:, 3] + rng.uniform(10, 300, size=n)
    if "diameter" in out:
        out["diameter"] = np.abs(out["diameter"]) + 0.3
    return out


# --------------------------------------------------------------------------- attribute level
def _attr_case(C):
    import magpylib
    from magpylib._src.obj_classes import class_BaseExcitations as BE

    MU0 = toz(float(magpylib.mu_0))
    src = magpylib.magnet.Cuboid(dimension=(1, 1, 1), polarization=(0, 0, 1))
    for which, other in (("polarization", "magnetization"), ("magnetization", "polarization")):
        CTX.reset([])
        v = symarr("v", (3,))
        big = [z3.Or(*[z3.Or(toz(x) > 3000, toz(x) < -3000) for x in v])] if which == "magnetization" else []
        CTX.pre = big
        CTX.reset([])
        try:
            setattr(src, which, v)
        except Exception as e:  # noqa
            C.note_inconclusive(f"setter-{which}", f"raised {type(e).__name__}: {e}")
            continue
        pol, mag = src._polarization, src._magnetization
        viol = z3.Or(*[toz(pol[c]) != MU0 * toz(mag[c]) for c in range(3)])

        def on_model(env, which=which):
            vals = [env.get(f"v_{k}", 0.0) or 0.0 for k in range(3)]
            return {"key": f"C02|BaseMagnet.{which}.setter|J=mu0M", "replay": {"kind": "attr", "which": which, "value": vals}}

        KF = "C02-setter-legacy-mu0"
        if KF in C.known:
            # known finding: the setters use the legacy constant 4*pi*1e-7.  Report it (replayed), and keep deciding
            # that the two attributes are related by exactly that constant - any other relation is a new violation.
            LEG = toz(float(4 * np.pi * 1e-7))
            viol_leg = z3.Or(*[toz(pol[c]) != LEG * toz(mag[c]) for c in range(3)])
            C.oblige(f"setter-{which}.pol=legacy_mu0*mag", CTX.pc, viol_leg, on_model=on_model, inputs=list(v),
                     sample=f"after `magnet.{which} = v`: polarization == (4*pi*1e-7) * magnetization for all real v (known finding: legacy constant)")

            def on_model_kf(env, which=which):
                c = on_model(env, which)
                c["known_id"] = KF
                return c

            C.oblige(f"setter-{which}.pol=mu0*mag[known-finding]", CTX.pc, viol, on_model=on_model_kf, inputs=list(v))
            C.obligations[-1]["status"] = "known-finding"
        else:
            C.oblige(f"setter-{which}.pol=mu0*mag", CTX.pc, viol, on_model=on_model, inputs=list(v),
                     sample=f"after `magnet.{which} = v` the attributes satisfy polarization == magpylib.mu_0 * magnetization for all real v")
        stored = {"polarization": pol, "magnetization": mag}[which]
        C.oblige(f"setter-{which}.stored", CTX.pc, neq_any(stored, v), inputs=list(v))
    C.paths += 2
    # the low-magnetization warning escalated to an error (python -W error): the setter raises, and the two attributes must still be consistent
    import warnings

    CTX.reset([])
    v = symarr("w", (3,))
    CTX.pre = [z3.And(toz(x) > -100, toz(x) < 100) for x in v]
    CTX.reset([])
    src3 = magpylib.magnet.Cuboid(dimension=(1, 1, 1), polarization=(0, 0, 1))
    raised = False
    with warnings.catch_warnings():
        warnings.simplefilter("error")
        try:
            src3.magnetization = v
        except Warning:
            raised = True
        except Exception as e:  # noqa
            C.note_inconclusive("setter-magnetization-warning-as-error", f"raised {type(e).__name__}: {e}")
    pol, mag = src3._polarization, src3._magnetization
    if pol is not None and mag is not None:
        K = toz(float(4 * np.pi * 1e-7)) if "C02-setter-legacy-mu0" in C.known else MU0
        viol = z3.Or(*[toz(pol[c]) != K * toz(mag[c]) for c in range(3)])
        C.oblige("setter-magnetization-warning-as-error.consistent", CTX.pc, viol, inputs=list(v),
                 on_model=lambda env: {"key": "C02|BaseMagnet.magnetization.setter|warning-as-error",
                                       "replay": {"kind": "attr-warn", "value": [env.get(f"w_{k}", 0.0) or 0.0 for k in range(3)]}},
                 sample=f"magnetization = v with |v|<100 under warnings-as-errors (raised={raised}): polarization and magnetization stay related by the constant")
    C.paths += 1
    # None assignment: documented 'not yet set'
    for which in ("polarization", "magnetization"):
        src2 = magpylib.magnet.Cuboid(dimension=(1, 1, 1), polarization=(0, 0, 1))
        ok = True
        try:
            setattr(src2, which, None)
        except Exception as e:  # noqa
            ok = False
        consistent = src2.polarization is None and src2.magnetization is None
        name = f"setter-{which}=None"
        if ok and consistent:
            C.obligations.append({"name": name, "status": "unsat", "witness": "sat", "note": "concrete: None accepted, both attributes None"})
        else:
            C.obligations.append({"name": name, "status": "sat", "note": "None assignment raised or left inconsistent state"})
            C.candidates.append({"key": f"C02|BaseMagnet.{which}.setter|None", "replay": {"kind": "attr-none", "which": which}})


# --------------------------------------------------------------------------- replay on the plain library
def replay(spec):
    import magpylib

    kind = spec["kind"]
    if kind == "attr":
        src = magpylib.magnet.Cuboid(dimension=(1, 1, 1), polarization=(0, 0, 1))
        import warnings

        with warnings.catch_warnings():
            warnings.simplefilter("ignore")
            setattr(src, spec["which"], spec["value"])
        lhs = np.array(src.polarization)
        rhs = magpylib.mu_0 * np.array(src.magnetization)
        bad = not rel_close(lhs, rhs, 1e-12)
        return bad, f"magnet.{spec['which']}={spec['value']}: polarization={lhs.tolist()} mu_0*magnetization={rhs.tolist()}"
    if kind == "attr-warn":
        import warnings

        src = magpylib.magnet.Cuboid(dimension=(1, 1, 1), polarization=(0, 0, 1))
        with warnings.catch_warnings():
            warnings.simplefilter("error")
            try:
                src.magnetization = spec["value"]
            except Warning:
                pass
        lhs = np.array(src.polarization, dtype=float)
        rhs = magpylib.mu_0 * np.array(src.magnetization, dtype=float)
        bad = not rel_close(lhs, rhs, 1e-8, 1e-300)
        return bad, f"magnetization={spec['value']} with warnings as errors: polarization={lhs.tolist()} mu_0*magnetization={rhs.tolist()}"
    if kind == "attr-none":
        src = magpylib.magnet.Cuboid(dimension=(1, 1, 1), polarization=(0, 0, 1))
        try:
            setattr(src, spec["which"], None)
        except Exception as e:  # noqa
            return True, f"magnet.{spec['which']} = None raised {type(e).__name__}; polarization={src.polarization} magnetization={src.magnetization}"
        bad = not (src.polarization is None and src.magnetization is None)
        return bad, f"after None: polarization={src.polarization} magnetization={src.magnetization}"
    if kind == "section":
        w = WRAPPERS["cylseg"]
        args = spec["args"]
        f = {x: np.asarray(w.call_float(x, args), dtype=float) for x in "BHJ"}
        pol = np.asarray(args["polarization"], dtype=float)[0]
        r1, r2, h = args["dimension"][0][:3]
        o = args["observers"][0]
        rho = float(np.hypot(o[0], o[1]))
        inside = _in_section(spec["alpha"], spec["section"]) and r1 * (1 + 1e-6) < rho < r2 * (1 - 1e-6) and abs(o[2]) < h / 2 * (1 - 1e-6)
        outside = (not _in_section(spec["alpha"], spec["section"])) or rho > r2 * (1 + 1e-6) or rho < r1 * (1 - 1e-6) or abs(o[2]) > h / 2 * (1 + 1e-6)
        desc = f"CylinderSegment dimension {args['dimension'][0]} observer {o} (azimuth {spec['alpha']} deg): J={f['J'][0].tolist()} polarization={pol.tolist()} B={f['B'][0].tolist()}"
        if spec["expect"] == "inside":
            return bool(inside and not rel_close(f["J"][0], pol, 1e-12)), "inside the section but " + desc
        if spec["expect"] == "outside":
            return bool(outside and np.abs(f["J"][0]).max() > 0), "outside the section but " + desc
        d = np.abs(f["B"] - magpylib.mu_0 * f["H"] - f["J"]).max()
        return bool(np.all(np.isfinite(f["B"])) and d > 1e-9 * max(np.abs(f["B"]).max(), np.abs(f["J"]).max(), 1e-300)), f"|B-mu0H-J|={d:.3e} :: " + desc
    w = WRAPPERS[spec["wrapper"]]
    args = spec["args"]
    mu0 = magpylib.mu_0
    f = {x: np.asarray(w.call_float(x, args), dtype=float) for x in "BHJM"}
    scale = max(np.abs(f["B"]).max(), np.abs(mu0 * f["H"]).max(), np.abs(f["J"]).max(), 1e-300)
    desc = f"{w.func}({ {k: v for k, v in args.items()} }): B={f['B'].tolist()} H={f['H'].tolist()} J={f['J'].tolist()}"
    used = "J" if kind in ("J=0", "J-inside", "J-outside") else ("JM" if kind == "J=mu0M" else "BHJ")
    if not all(np.all(np.isfinite(f[x])) for x in used):
        return False, "non-finite output (not a C02 matter): " + desc
    if kind == "B=mu0H+J":
        d = np.abs(f["B"] - mu0 * f["H"] - f["J"]).max()
        return bool(d > 1e-9 * scale), f"|B-mu0H-J|={d:.3e} :: " + desc
    if kind == "J=mu0M":
        d = np.abs(f["J"] - mu0 * f["M"]).max()
        return bool(d > 1e-9 * scale), f"|J-mu0M|={d:.3e} :: " + desc
    if kind == "J=0":
        return bool(np.abs(f["J"]).max() > 0), desc
    pol = np.asarray(args["polarization"], dtype=float)
    geo = _geo_float(spec["wrapper"], args)
    bad = False
    for i, g in enumerate(geo):
        if kind == "J-inside" and g == "inside" and not rel_close(f["J"][i], pol[i], 1e-12):
            bad = True
        if kind == "J-outside" and g == "outside" and np.abs(f["J"][i]).max() > 0:
            bad = True
    return bad, f"geometry={geo} :: " + desc


def _geo_float(name, args):
    """geometric classification in doubles, same definitions as inside_outside()"""
    eps = 1e-9
    obs = np.asarray(args["observers"], dtype=float)
    res = []
    for i, o in enumerate(obs):
        g = "surface"
        if name == "cuboid":
            h = np.asarray(args["dimension"][i]) / 2
            if np.all(np.abs(o) < h * (1 - eps)):
                g = "inside"
            elif np.any(np.abs(o) > h * (1 + eps)):
                g = "outside"
        elif name == "cylinder":
            r0, h2 = args["dimension"][i][0] / 2, args["dimension"][i][1] / 2
            r = np.hypot(o[0], o[1])
            if r < r0 * (1 - eps) and abs(o[2]) < h2 * (1 - eps):
                g = "inside"
            elif r > r0 * (1 + eps) or abs(o[2]) > h2 * (1 + eps):
                g = "outside"
        elif name == "sphere":
            R = args["diameter"][i] / 2
            r = np.linalg.norm(o)
            g = "inside" if r < R * (1 - eps) else ("outside" if r > R * (1 + eps) else g)
        elif name in ("cylseg", "cylseg_internal"):
            r1, r2, h, p1, p2 = args["dimension"][i]
            r = np.hypot(o[0], o[1])
            if r > r2 * (1 + eps) or r < r1 * (1 - eps) or abs(o[2]) > h / 2 * (1 + eps):
                g = "outside"
            elif name == "cylseg_internal" and p2 - p1 == 360 and r1 * (1 + eps) < r < r2 * (1 - eps) and abs(o[2]) < h / 2 * (1 - eps):
                g = "inside"
        elif name == "tetra":
            v = np.asarray(args["vertices"][i], dtype=float)
            T = (v[1:] - v[0]).T
            if np.linalg.det(T) == 0:
                res.append("outside")  # a flat tetrahedron has no inside
                continue
            lam = np.linalg.solve(T, o - v[0])
            if np.all(lam > eps) and lam.sum() < 1 - eps:
                g = "inside"
            elif np.any(lam < -eps) or lam.sum() > 1 + eps:
                g = "outside"
        res.append(g)
    return res
