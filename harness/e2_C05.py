"""C05  superposition (collections, nesting, sumup) and linearity in the excitation.

(a) real format_src_inputs / format_obj_input / collection slice summation / sumup of getBH_level2 with uninterpreted
    per-leaf fields: the entry of a collection equals the sum of its leaves, sumup the sum of entries.
(b) linearity of the real BHJM_* wrappers in the excitation, for all reals: F(l*J1+J2) = l*F(J1)+F(J2);
    Cylinder: homogeneity F(l*J) = l*F(J), l>0 (polarization passes through atan2/sqrt angles).
"""
import importlib
import itertools

import numpy as np
import z3

from symnum import CTX, oarr, symarr, sym, toz, explore
from .common import Case, neq_any, rel_close
from .wrappers import WRAPPERS, apply_cuts
from . import level2 as L2

PROPERTY = "C05"
FUNCTIONS = [
    "magpylib._src.fields.field_wrap_BH:getBH_level2",
    "magpylib._src.utility:format_src_inputs",
    "magpylib._src.utility:format_obj_input",
] + [WRAPPERS[n].qual() for n in ("cuboid", "sphere", "triangle", "tetra", "dipole", "circle", "polyline", "cylinder")]
BOUNDS = [
    "source lists: arrangements of <=4 leaves into bare sources, collections and one level of nesting (committed list incl. two collections of "
    "different size followed by a bare source, and an object reachable twice); path lengths {1,2}; sumup in {False,True}",
    "linearity: 1 row, all real observers/dimensions, all real l, J1, J2 (Cylinder: l>0, one J); tetrahedron vertices / polyline endpoints fixed rationals",
]
CUTS = ["per-leaf local field functions uninterpreted (a); leaf kernels cel/ellipe/ellipk/cel_iter/triB uninterpreted (b)", "SymRot"]
ASSUMPTIONS = ["real arithmetic; unit input quaternions", "atan2(l*y, l*x) = atan2(y, x) for l>0 (lemma instances for the Cylinder homogeneity obligation)"]
NOT_DECIDED = ["linearity of CylinderSegment (magnetization magnitude enters the abstracted segment kernel) and of TriangularMesh (see C13)"]

cu = lambda tag, m=1: {"kind": "custom", "tag": tag, "path": m}
di = lambda tag, m=1: {"kind": "dipole", "tag": tag, "path": m}
co = lambda ch, m=1: {"kind": "coll", "path": m, "children": ch}
se1 = [{"path": 1, "pixel": (3,), "orient": "identity"}]
SCENES = {
    "coll2-coll1-bare": {"sources": [co([cu("a"), cu("b", 2)]), co([cu("c")]), cu("d")], "sensors": se1},
    "nested": {"sources": [co([cu("a"), co([di("d1"), cu("b")])]), di("d2", 2)], "sensors": se1},
    "bare-first-then-colls": {"sources": [cu("a", 2), co([cu("b"), cu("c"), cu("d")]), co([di("d1")])], "sensors": se1},
    "reachable-twice": {"sources": [cu("a"), co([{"ref": 0}, cu("b")])], "sensors": se1},
    "single-collection": {"sources": [co([cu("a"), cu("b")], 2)], "sensors": se1},
    "collection-twice": {"sources": [co([cu("a"), cu("b")]), cu("c"), {"ref": 0}], "sensors": se1},
}
LINEAR = ["cuboid", "sphere", "triangle", "tetra", "dipole", "circle", "polyline"]
FIXED = {
    "triangle": {"vertices": [[(0, 0, 0), (2, 0, 0), (0, 3, 1)]]},
    "tetra": {"vertices": [[(0, 0, 0), (1, 0, 0), (0, 1, 0), (0, 0, 1)]]},
    "polyline": {"segment_start": [(1, -1, 0)], "segment_end": [(3, 0, 2)]},
}


def cases(tier, seed):
    out = []
    for nm in SCENES:
        for sumup in (False, True):
            out.append({"id": f"struct-{nm}-sumup{int(sumup)}", "kind": "struct", "scene": nm, "sumup": sumup, "weight": 3})
    for nm in LINEAR:
        out.append({"id": f"linear-{nm}", "kind": "linear", "wrapper": nm, "weight": 4})
    out.append({"id": "homog-cylinder", "kind": "homog", "wrapper": "cylinder", "weight": 6})
    return out


def run_case(case, info):
    C = Case(case, info)
    {"struct": _struct, "linear": _linear, "homog": _homog}[case["kind"]](C)
    return C.result()


def _struct(C):
    case = C.case
    spec = SCENES[case["scene"]]
    sumup = case["sumup"]

    def run():
        sc = L2.Scene(spec)
        sc.patch_classes()
        try:
            try:
                out = sc.call("B", squeeze=False, sumup=sumup)
            except Exception as e:  # noqa
                out = e
        finally:
            sc.unpatch_classes()
        return sc, out

    def on_path(p):
        C.paths += 1
        if p.status != "ok":
            C.note_inconclusive(f"p{C.paths}", f"aborted: {p.out}")
            return
        sc, out = p.out
        rp = {"kind": "struct", "scene": case["scene"], "sumup": sumup}
        if isinstance(out, Exception):
            C.obligations.append({"name": f"p{C.paths}.returns", "status": "sat", "note": f"raised {type(out).__name__}: {out}"})
            C.candidates.append({"key": f"C05|getBH_level2|raises|{case['scene']}", "replay": dict(rp, env={})})
            return
        pairs, err = L2.compare_full(sc, out, "B", sumup=sumup)
        if err:
            C.obligations.append({"name": f"p{C.paths}.shape", "status": "sat", "note": err})
            C.candidates.append({"key": f"C05|getBH_level2|shape|{case['scene']}", "replay": dict(rp, env={})})
            return
        viol = z3.Or(*[z3.Or(*[toz(g[c]) != toz(e[c]) for c in range(3)]) for _, g, e in pairs])
        C.oblige(f"p{C.paths}.superposition", p.pc + sc.assume, viol,
                 on_model=lambda env: {"key": f"C05|getBH_level2|sum|{case['scene']}|sumup={sumup}", "replay": dict(rp, env=env)},
                 inputs=sc.inputs, nice=False, quat_groups=sc.quat_groups,
                 sample=f"each of {len(pairs)} entries == sum over the leaves of that top-level entry (sumup={sumup}: sum over entries)")

    paths = explore(run, max_paths=50, on_path=on_path)
    C.decisions += sum(len(p.decisions) for p in paths)


def _sym_wrapper_args(C, name):
    w = WRAPPERS[name]
    apply_cuts([c for c in w.cuts if not (c == "triB" and C.case["kind"] == "linear")])
    A = w.sym_args(1)
    for k, v in FIXED.get(name, {}).items():
        A[k] = oarr(np.array(v, dtype=float))
    CTX.pre = w.pre_all(A)
    return w, A


def _linear(C):
    name = C.case["wrapper"]
    w, A = _sym_wrapper_args(C, name)
    fn = w.fn()
    ex = w.excitation
    shape = A[ex].shape
    J1, J2 = symarr("j1", shape), symarr("j2", shape)
    lam = sym("lam")
    fields = "BH"

    def call(f, J):
        kw = {k: v.copy() for k, v in A.items()}
        kw[ex] = J
        return fn(field=f, **kw, **w.extra_kw)

    def run():
        return {f: (call(f, lam * J1 + J2), call(f, J1.copy()), call(f, J2.copy())) for f in fields}

    inputs = [x for k, a in A.items() if k != ex for x in np.asarray(a, dtype=object).ravel()] + list(J1.ravel()) + list(J2.ravel()) + [lam]

    def on_path(p):
        C.paths += 1
        if p.status != "ok":
            C.note_inconclusive(f"p{C.paths}", f"aborted: {p.out}")
            return
        for f in fields:
            comb, f1, f2 = p.out[f]
            defined = [x.d for arr in (comb, f1, f2) for x in np.asarray(arr, dtype=object).ravel()]
            viol = neq_any(comb, lam * np.asarray(f1, dtype=object) + np.asarray(f2, dtype=object))

            def on_model(env, f=f):
                fargs = w.env_to_float_args(env, A)
                return {"key": f"C05|{w.func}|linearity|{f}",
                        "replay": {"kind": "linear", "wrapper": name, "field": f, "args": {k: v.tolist() for k, v in fargs.items()},
                                   "J1": [env.get(str(toz(x)), 0.0) for x in J1.ravel()], "J2": [env.get(str(toz(x)), 0.0) for x in J2.ravel()],
                                   "lam": env.get("lam", 0.0)}}

            C.oblige(f"p{C.paths}.{f}.linear", p.pc + defined, viol, on_model=on_model, inputs=inputs, key=f"C05|{w.func}|linearity|{f}",
                     keep=list(J1.ravel()) + list(J2.ravel()) + [lam],
                     sample=f"{w.func}: {f}(l*J1+J2) == l*{f}(J1)+{f}(J2) for all reals on this path")

    paths = explore(run, max_paths=300 if C.tier == "quick" else 2000, on_path=on_path, seeds=C.seed_envs(inputs, n=2))
    C.decisions += sum(len(p.decisions) for p in paths)
    if explore.truncated:
        C.note_inconclusive("path-budget", "path budget hit")


def _homog(C):
    name = C.case["wrapper"]
    w, A = _sym_wrapper_args(C, name)
    fn = w.fn()
    ex = w.excitation
    lam = sym("lam")
    CTX.pre = CTX.pre + [lam.z > 0]
    J = A[ex]
    inputs = w.inputs(A) + [lam]

    def call(f, Jx):
        kw = {k: v.copy() for k, v in A.items()}
        kw[ex] = Jx
        return fn(field=f, **kw, **w.extra_kw)

    def run():
        return {f: (call(f, lam * J), call(f, J.copy())) for f in "BH"}

    def on_path(p):
        C.paths += 1
        if p.status != "ok":
            C.note_inconclusive(f"p{C.paths}", f"aborted: {p.out}")
            return
        lem = []
        apps = CTX.uf_apps.get("atan2", [])
        for (v1, a1), (v2, a2) in itertools.permutations(apps, 2):
            lem.append(z3.Implies(z3.And(a2[0] == lam.z * a1[0], a2[1] == lam.z * a1[1]), v2 == v1))
        for f in "BH":
            scaled, base = p.out[f]
            defined = [x.d for arr in (scaled, base) for x in np.asarray(arr, dtype=object).ravel()]
            viol = neq_any(scaled, lam * np.asarray(base, dtype=object))
            viol, merged, failed = C.merge_uf(p.pc + lem, viol, timeout=5000)

            def on_model(env, f=f):
                fargs = w.env_to_float_args(env, A)
                return {"key": f"C05|{w.func}|homogeneity|{f}",
                        "replay": {"kind": "homog", "wrapper": name, "field": f, "args": {k: v.tolist() for k, v in fargs.items()}, "lam": env.get("lam", 1.0)}}

            C.oblige(f"p{C.paths}.{f}.homogeneous", p.pc + defined, viol, lemmas=lem, on_model=on_model, inputs=inputs,
                     key=f"C05|{w.func}|homogeneity|{f}", keep=list(J.ravel()) + [lam],
                     sample=f"{w.func}: {f}(l*J) == l*{f}(J) for all l>0 on this path")

    paths = explore(run, max_paths=200 if C.tier == "quick" else 1000, on_path=on_path, seeds=C.seed_envs(inputs, n=2))
    C.decisions += sum(len(p.decisions) for p in paths)
    if explore.truncated:
        C.note_inconclusive("path-budget", "path budget hit")


# ----------------------------------------------------------------------------- replay
def replay(spec):
    kind = spec["kind"]
    if kind == "struct":
        env = spec.get("env") or {}
        rng = np.random.default_rng(5)

        class _E(dict):
            def get(self, k, d=None):
                if k not in self or self[k] is None:
                    self[k] = float(rng.normal())
                return self[k]

        sc = L2.Scene(SCENES[spec["scene"]], symbolic=False, env=_E(env))
        sc.patch_classes()
        try:
            try:
                out = np.asarray(sc.call("B", squeeze=False, sumup=spec["sumup"]), dtype=float)
            except Exception as e:  # noqa
                return True, f"valid call raised {type(e).__name__}: {str(e)[:200]}"
            pairs, err = L2.compare_full(sc, out, "B", sumup=spec["sumup"])
        finally:
            sc.unpatch_classes()
        if err:
            return True, err
        bad = [(d, g.tolist(), np.asarray(e, dtype=float).tolist()) for d, g, e in pairs if not rel_close(g, np.asarray(e, dtype=float), 1e-9, 1e-12)]
        if bad:
            return True, f"scene {spec['scene']} sumup={spec['sumup']}: entry {bad[0][0]} got {bad[0][1]} expected sum of leaves {bad[0][2]}"
        return False, "sums agree in doubles"
    w = WRAPPERS[spec["wrapper"]]
    args = {k: np.array(v, dtype=float) for k, v in spec["args"].items()}
    f = spec["field"]
    ex = w.excitation
    lam = float(spec["lam"] or 0.0)
    if kind == "linear":
        J1 = np.array(spec["J1"], dtype=float).reshape(args[ex].shape)
        J2 = np.array(spec["J2"], dtype=float).reshape(args[ex].shape)
        comb = np.asarray(w.call_float(f, {**args, ex: lam * J1 + J2}), dtype=float)
        f1 = np.asarray(w.call_float(f, {**args, ex: J1}), dtype=float)
        f2 = np.asarray(w.call_float(f, {**args, ex: J2}), dtype=float)
        if not np.all(np.isfinite(comb + f1 + f2)):
            return False, "non-finite (singular point)"
        exp = lam * f1 + f2
        scale = max(np.abs(lam * f1).max(), np.abs(f2).max(), np.abs(comb).max(), 1e-300)
        d = np.abs(comb - exp).max()
        return bool(d > 1e-9 * scale), f"{w.func} {f}: |F(l*J1+J2) - l*F(J1) - F(J2)| = {d:.3e} (scale {scale:.3e}) args={spec['args']} J1={spec['J1']} J2={spec['J2']} l={lam}"
    # the model's excitation, then its single-component projections J_k e_k with the same factor: a branch that depends on one small
    # component of the excitation changes the value by an amount that is invisible next to the contribution of a large other component,
    # but F(l * J_k e_k) = l * F(J_k e_k) is the same property and shows it (each is a real run of the real kernel)
    J0 = args[ex]
    variants = [J0]
    if np.ndim(J0) == 2 and J0.shape[-1] == 3:
        for kk in range(3):
            if J0[0, kk] != 0 and np.count_nonzero(J0[0]) > 1:
                Jk = np.zeros_like(J0)
                Jk[:, kk] = J0[:, kk]
                variants.append(Jk)
    last = (False, "non-finite (singular point)")
    for Jv in variants:
        scaled = np.asarray(w.call_float(f, {**args, ex: lam * Jv}), dtype=float)
        base = np.asarray(w.call_float(f, {**args, ex: Jv}), dtype=float)
        if not np.all(np.isfinite(scaled + base)):
            continue
        d = np.abs(scaled - lam * base).max()
        scale = max(np.abs(scaled).max(), np.abs(lam * base).max(), 1e-300)
        last = (bool(d > 1e-9 * scale), f"{w.func} {f}: |F(l*J) - l*F(J)| = {d:.3e} (scale {scale:.3e}) args={ {**spec['args'], ex: Jv.tolist()} } l={lam}")
        if last[0]:
            return last
    return last
