"""C12  results are invariant under the choice of length unit.

Every wrapper / kernel with masks is run at the input X and at s*X (all lengths scaled, s in [1e-9,1e9] symbolic) inside one
symbolic path; the solver is asked for an input on which ANY branch decision differs.  unsat on all path pairs = the piece
structure is scale-free, which is where the property locates the risk (absolute tolerances) and needs no transcendental reasoning.
For algebraic kernels (Dipole, Sphere, Polyline, on-axis Circle) the exact scaling law of the values is asserted as well.
"""
import importlib
import itertools
from fractions import Fraction

import numpy as np
import z3

from symnum import CTX, S, oarr, symarr, sym, toz, explore
from .common import Case, neq_any, rel_close
from .wrappers import WRAPPERS, apply_cuts, tetra_mesh, UNIT_TETRA

PROPERTY = "C12"
FUNCTIONS = [w.qual() for w in WRAPPERS.values()] + [
    "magpylib._src.fields.field_BH_cylinder_segment:close",
    "magpylib._src.fields.field_BH_triangle:triangle_Bfield",
    "magpylib._src.fields.field_BH_tetrahedron:point_inside",
]
BOUNDS = [
    "1 row; all real inputs under the setter preconditions; scale factor s in [1e-9, 1e9] symbolic (quick tier, Cuboid / Polyline / full-angle "
    "CylinderSegment: s from {1e-9,1e-6,1e-3,1/2,2,1e3,1e6,1e9}); excitation unscaled",
    "Polyline endpoints / Triangle / Tetrahedron vertices: fixed rational base geometry, scaled by the symbolic s; TriangularMesh inside test: see C16",
    "value laws (s^0 magnets, s^-1 currents, s^-3 dipole) asserted for Dipole, Sphere, Polyline, Circle on the axis; for the other kernels only the branch structure",
]
CUTS = ["leaf kernels uninterpreted (branch decisions of the wrappers do not depend on their values)", "triangle kernel executed for real in the 'triangle-kernel' case"]
ASSUMPTIONS = ["real arithmetic", "atan2(s*y, s*x) = atan2(y, x) for s > 0 (lemma instances)"]
NOT_DECIDED = ["value laws of Cuboid / Cylinder / CylinderSegment / Triangle-based kernels (log / atan2 / elliptic identities)",
               "mesh validation and face orientation under scaling: decided in C16"]

S_LO, S_HI = z3.RealVal("1/1000000000"), z3.RealVal(1000000000)
FIXED = {
    "polyline": {"segment_start": [(1, -1, 0)], "segment_end": [(3, 0, 2)]},
    "triangle": {"vertices": [[(0, 0, 0), (2, 0, 0), (0, 3, 1)]]},
    "tetra": {"vertices": [[(0, 0, 0), (1, 0, 0), (0, 1, 0), (0, 0, 1)]]},
}
LAW = {"dipole": -3, "sphere": 0, "polyline": -1}
SKIP = {"trimesh"}
HEAVY = {"cuboid", "polyline", "cylseg_internal"}
S_LIST = ["1e-9", "1e-6", "1e-3", "1/2", "2", "1e3", "1e6", "1e9"]


def cases(tier, seed):
    out = []
    for name in WRAPPERS:
        if name in SKIP:
            continue
        if name in HEAVY:
            # symbolic s makes every mask condition a product of two symbolic reals (minutes per wrapper): the quick tier uses a list of
            # concrete scale factors for these wrappers, the thorough tier both the list and the symbolic factor
            for sv in S_LIST:
                out.append({"id": f"branches-{name}-s={sv}", "kind": "branches", "wrapper": name, "weight": 2, "s_value": sv})
            if tier == "quick":
                continue
        out.append({"id": f"branches-{name}", "kind": "branches", "wrapper": name, "weight": 4})
    out.append({"id": "triangle-kernel", "kind": "trikernel", "weight": 4})
    return out


def _scaled(w, A, s):
    B = {}
    for k, a in A.items():
        if k in w.lengths:
            B[k] = a * s
        elif k == "dimension" and a.shape[-1] == 5:  # cylinder segment: r1, r2, h scale, the angles do not
            scale = np.array([1, 1, 1, 0, 0]) * s + np.array([0, 0, 0, 1, 1])
            B[k] = a * scale
        else:
            B[k] = a.copy()
    return B


def _atan2_lemmas(s):
    lem = []
    apps = CTX.uf_apps.get("atan2", [])
    for (v1, a1), (v2, a2) in itertools.permutations(apps, 2):
        lem.append(z3.Implies(z3.And(a2[0] == s.z * a1[0], a2[1] == s.z * a1[1]), v2 == v1))
    return lem


def run_case(case, info):
    C = Case(case, info)
    if case["kind"] == "trikernel":
        _trikernel(C)
        return C.result()
    name = case["wrapper"]
    w = WRAPPERS[name]
    apply_cuts(w.cuts)
    fn = w.fn()
    A = w.sym_args(1)
    fixed = dict(FIXED.get(name, {}))
    if name == "polyline" and C.tier == "quick":
        fixed = {"segment_start": [(0, 0, 0)], "segment_end": [(1, 0, 0)]}  # axis-aligned in the quick tier (oblique: thorough)
    for k, v in fixed.items():
        A[k] = oarr(np.array(v, dtype=float))
    if case.get("s_value"):
        from fractions import Fraction

        sv = case["s_value"]
        s = S(toz(Fraction(10) ** int(sv.split("e")[1]) if "e" in sv else Fraction(sv)))
        CTX.pre = w.pre_all(A)
    else:
        s = sym("s")
        CTX.pre = w.pre_all(A) + [s.z >= S_LO, s.z <= S_HI]
    As = _scaled(w, A, s)
    inputs = w.inputs(A) + ([] if case.get("s_value") else [s])
    s_float = float(s) if case.get("s_value") else 0.0

    def hook(fname, rel):
        # atan2(s*y, s*x) = atan2(y, x) for s > 0: needed already while branches are decided, else the azimuths of the two runs are unrelated
        if fname != "atan2":
            return []
        out = []
        for (v1, a1), (v2, a2) in itertools.permutations(rel, 2):
            out.append(z3.Implies(z3.And(a2[0] == s.z * a1[0], a2[1] == s.z * a1[1]), v2 == v1))
        return out

    CTX.lemma_hook = hook
    fields = "BJ" if w.magnet else "B"

    def run():
        out = {}
        for f in fields:
            CTX.cache = {}
            CTX.site_log = []
            a = fn(field=f, **{k: v.copy() for k, v in A.items()}, **w.extra_kw)
            log1 = CTX.site_log
            CTX.cache = {}
            CTX.site_log = []
            b = fn(field=f, **{k: v.copy() for k, v in As.items()}, **w.extra_kw)
            log2 = CTX.site_log
            CTX.site_log = None
            out[f] = (a, b, log1, log2)
            CTX.cache = {}
        return out

    def on_path(p):
        C.paths += 1
        if p.status != "ok":
            C.note_inconclusive(f"p{C.paths}", f"aborted: {p.out}")
            return
        lem = []  # the atan2 homogeneity instances are supplied through CTX.lemma_hook, restricted to the applications of each query
        for f in fields:
            a, b, log1, log2 = p.out[f]
            # every branch condition evaluated by the code (also the syntactically decided ones), by source site and outcome
            same = log1 == log2

            def mk(kind, f=f):
                def on_model(env):
                    fargs = w.env_to_float_args(env, A)
                    kid = KNOWN_SITES.get(w.func) if (kind == "branches" and w.func in KNOWN_SITES and _in_abs_band(fargs, s_float or env.get("s", 1.0) or 1.0)) else None
                    return {"key": f"C12|{w.func}|{kind}|{f}" + ("|abs-tolerance-band" if kid else ""), "known_id": kid,
                            "replay": {"kind": kind, "wrapper": name, "field": f, "args": {k: v.tolist() for k, v in fargs.items()}, "s": s_float or env.get("s", 1.0)}}

                return on_model

            if not same:
                # a path on which the two runs took different branches: feasible?  (solver + lemmas), then replay.
                # a non-zero excitation is requested so that a different branch shows in the values
                nz = []
                if w.excitation and w.excitation in A:
                    nz = [toz(x) != 0 for x in np.asarray(A[w.excitation], dtype=object).ravel()]
                C.oblige(f"p{C.paths}.{f}.same-branches", p.pc + nz, z3.BoolVal(True), lemmas=lem, on_model=mk("branches"), inputs=inputs,
                         key=f"C12|{w.func}|branches|{f}")
            else:
                C.obligations.append({"name": f"p{C.paths}.{f}.same-branches", "status": "unsat", "witness": "sat",
                                      "note": "identical decision sequence at X and s*X on this path"})
                if name in LAW and f == "B":
                    k = LAW[name]
                    sc = {0: lambda x: x, -1: lambda x: x / s, -3: lambda x: x / (s * s * s)}[k]
                    defined = [x.d for arr in (a, b) for x in np.asarray(arr, dtype=object).ravel()]
                    viol = neq_any(np.asarray(b, dtype=object), sc(np.asarray(a, dtype=object)))
                    C.oblige(f"p{C.paths}.{f}.scaling-law", p.pc + defined, viol, lemmas=lem, on_model=mk("law"), inputs=inputs, key=f"C12|{w.func}|law|{f}",
                             sample=f"{w.func}: B(s*X) == s^{k} * B(X) for all s in [1e-9,1e9] on this path")
        if C.paths <= 2:
            C.samples.append({"case": C.case["id"], "what": f"{w.func}: decision sequences at X and at s*X compared on every feasible joint path"})

    paths = explore(run, max_paths=250 if C.tier == "quick" else 2500, on_path=on_path, seeds=C.seed_envs(inputs, n=2))
    C.decisions += sum(len(p.decisions) for p in paths)
    if explore.truncated:
        C.note_inconclusive("path-budget", "path budget hit")
    return C.result()


# call sites whose absolute tolerances are recorded as known findings (see known_findings.json)
KNOWN_SITES = {
    "BHJM_cylinder_segment": "C12-cylseg-absolute-tolerances",
    "BHJM_cylinder_segment_internal": "C12-cylseg-absolute-tolerances",
}


def _in_abs_band(fargs, s, band=1e-10):
    """cylinder segment: is some compared pair (r vs r1/r2, z vs +-h/2, r vs 0) within the absolute tolerance band of close()/the 1e-14 slabs,
    at X or at s*X?  Only such counterexamples belong to the recorded known finding; anything else is reported as a new violation."""
    o = np.asarray(fargs["observers"], dtype=float)[0]
    d = np.asarray(fargs["dimension"], dtype=float)[0]
    for k in (1.0, float(s)):
        r = np.hypot(o[0], o[1]) * k
        z = o[2] * k
        r1, r2, h = d[0] * k, d[1] * k, d[2] * k
        pairs = [(r, r1), (r, r2), (z, -h / 2), (z, h / 2), (r, 0.0), (r1, 0.0)]
        if any(abs(a - b) <= band + 1e-11 * abs(b) for a, b in pairs):
            return True
    return False


def _trikernel(C):
    """the real triangle kernel at X and s*X: (a) every branch decision it takes (by source site and outcome) and (b) the `ind > 1e-12`
    switch between the two edge-integral formulas (a lazy np.where, observed through a spy) are the same at both scales"""
    from magpylib._src.fields import field_BH_triangle as T
    from symnum import explore, tob

    V = oarr(np.array([[(0, 0, 0), (2, 0, 0), (0, 3, 1)]], dtype=float))
    obs = symarr("observers", (1, 3))
    pol = oarr(np.array([[0.3, 0.2, 1.0]]))
    s = sym("s")
    CTX.pre = [s.z >= S_LO, s.z <= S_HI]
    inputs = list(obs.ravel()) + [s]
    # expose the switch: np.where is lazy in the proxy, so the branch condition is recorded through a spy on np.where
    seen = []
    NPX = T.np

    class Spy:
        def __getattr__(self, k):
            return getattr(NPX, k)

        def where(self, c, *ab):
            seen.append(c)
            return NPX.where(c, *ab)

    def run():
        T.np = Spy()
        try:
            seen.clear()
            CTX.cache = {}
            CTX.site_log = []
            T.triangle_Bfield(observers=obs.copy(), vertices=V.copy(), polarizations=pol.copy())
            conds1 = [c for c in seen if np.shape(c) == (3, 1)][:1]
            log1 = CTX.site_log
            seen.clear()
            CTX.cache = {}
            CTX.site_log = []
            T.triangle_Bfield(observers=obs * s, vertices=V * s, polarizations=pol.copy())
            conds2 = [c for c in seen if np.shape(c) == (3, 1)][:1]
            log2 = CTX.site_log
        finally:
            T.np = NPX
            CTX.site_log = None
            CTX.cache = {}
        sq = [(v, CTX.sqrt_arg[v.get_id()]) for v in CTX.sqrt_tab.values()]
        return conds1, conds2, log1, log2, sq

    def on_model(env):
        return {"key": "C12|triangle_Bfield|branches", "replay": {"kind": "trikernel", "observers": [[env.get(f"observers_0_{k}", 0.0) or 0.0 for k in range(3)]], "s": env.get("s", 1.0)}}

    def on_path(p):
        C.paths += 1
        if p.status != "ok":
            C.note_inconclusive(f"p{C.paths}", f"aborted: {p.out}")
            return
        conds1, conds2, log1, log2, sq = p.out
        if log1 != log2:
            # the two runs took different branches on this path: is the path feasible?
            C.oblige(f"p{C.paths}.triangle_Bfield.same-decisions", p.pc, z3.BoolVal(True), on_model=on_model, inputs=inputs, key="C12|triangle_Bfield|branches",
                     timeout=8000 if C.tier == "quick" else 120000)
            return
        if not conds1 or not conds2:
            C.vacuous.append("triangle kernel: the ind > 1e-12 switch was not observed")
            return
        diff = z3.Or(*[tob(x) != tob(y) for x, y in zip(np.asarray(conds1[0], dtype=object).ravel(), np.asarray(conds2[0], dtype=object).ravel())])
        # sqrt(s^2 t) = s sqrt(t) for s > 0: lemma instances for the square roots of the two runs
        lem = []
        for (v1, a1), (v2, a2) in itertools.permutations(sq, 2):
            lem.append(z3.Implies(a2 == s.z * s.z * a1, v2 == s.z * v1))
        res = C.oblige(f"p{C.paths}.triangle_Bfield.edge-formula-switch-scale-free", p.pc, diff, lemmas=lem, on_model=on_model, inputs=inputs, key="C12|triangle_Bfield|branches",
                       timeout=8000 if C.tier == "quick" else 120000,
                       sample="triangle_Bfield: every decision and the switch between the general and the on-line edge formula are taken identically at X and s*X")
        if res == "unknown":
            # model search in a "nice" sub-domain (finding models with nested roots is much slower than refuting): observers close to the
            # extension line of the edge (0,0,0)->(2,0,0), where r + b/l is small
            o = [toz(x) for x in obs.ravel()]
            sub = [o[0] >= 3, o[0] <= 4, o[1] > 0, o[1] <= z3.RealVal("1/100"), o[2] == 0]
            C.oblige(f"p{C.paths}.triangle_Bfield.edge-formula-switch-scale-free[near edge extension]", p.pc + sub, diff, on_model=on_model, inputs=inputs,
                     key="C12|triangle_Bfield|branches", timeout=30000 if C.tier == "quick" else 120000)

    paths = explore(run, max_paths=20, on_path=on_path)
    C.decisions += sum(len(p.decisions) for p in paths)
    if explore.truncated:
        C.note_inconclusive("path-budget", "path budget hit")


# ----------------------------------------------------------------------------- replay
def replay(spec):
    kind = spec["kind"]
    s = float(spec.get("s") or 1.0)
    if kind == "trikernel":
        from magpylib._src.fields.field_BH_triangle import BHJM_triangle

        V = np.array([[(0, 0, 0), (2, 0, 0), (0, 3, 1)]], dtype=float)
        pol = np.array([[0.3, 0.2, 1.0]])
        o = np.array(spec["observers"], dtype=float)
        best = (False, "")
        # the candidate names the region; scan a few scales around the model's s for a visible value difference
        # (a decision that does not depend on the observer leaves it unconstrained in the model - often a vertex, where the field is NaN:
        #  generic observers are tried as well; any reproduced difference is a real violation of the property)
        for o in (o, np.array([[0.3, 0.4, 0.5]]), np.array([[-1.0, 2.0, 0.25]])):
            for sc in (s, 1e-9, 1e-6, 1e-3, 1e3):
                a = BHJM_triangle("B", o, V, pol)
                b = BHJM_triangle("B", o * sc, V * sc, pol)
                if np.all(np.isfinite(a)) and np.all(np.isfinite(b)):
                    d = np.abs(a - b).max() / max(np.abs(a).max(), 1e-300)
                    if d > 1e-7:
                        return True, f"triangle_Bfield at observer {o.tolist()}: B(X)={a.tolist()} but B(s*X)={b.tolist()} for s={sc} (relative difference {d:.2e})"
        return best
    w = WRAPPERS[spec["wrapper"]]
    f = spec["field"]
    args = {k: np.array(v, dtype=float) for k, v in spec["args"].items()}
    sargs = {}
    for k, a in args.items():
        if k in w.lengths:
            sargs[k] = a * s
        elif k == "dimension" and a.shape[-1] == 5:
            sargs[k] = a * (np.array([1, 1, 1, 0, 0]) * s + np.array([0, 0, 0, 1, 1]))
        else:
            sargs[k] = a
    k = {"dipole": -3, "circle": -1, "polyline": -1}.get(spec["wrapper"], 0)
    if f in "JM":
        k = 0
    # a decision that does not depend on the observer (e.g. "is this body flat?") leaves the observer unconstrained in the model, and the
    # model's observer may lie where the diverging branch does not change the value: points inside the body of the model's geometry are
    # tried as well (same geometry, same s; any reproduced difference is a real run of the real code).  Not for the cylinder-segment
    # wrappers, whose divergences are classified against the known finding by the model's own point.
    variants = [None]
    if "observers" in args and not spec["wrapper"].startswith("cylseg"):
        if "vertices" in args and args["vertices"].ndim == 3:
            c = args["vertices"][0].mean(axis=0)
            variants += [c[None], (0.7 * c + 0.3 * args["vertices"][0][0])[None]]
        elif "mesh" in args:
            variants += [args["mesh"][0].reshape(-1, 3).mean(axis=0)[None]]
        elif "dimension" in args or "diameter" in args:
            dim = np.ravel(args.get("dimension", args.get("diameter")))
            variants += [np.zeros((1, 3)), np.array([[0.05, 0.1, 0.15]]) * float(np.min(np.abs(dim[:2])) if dim.size > 1 else abs(dim[0]))]
    last = (False, "non-finite")
    for ov in variants:
        a1, s1 = dict(args), dict(sargs)
        if ov is not None:
            ov = np.repeat(np.asarray(ov, dtype=float), len(args["observers"]), axis=0)
            a1["observers"], s1["observers"] = ov, ov * s
        try:
            a = np.asarray(w.call_float(f, a1), dtype=float)
            b = np.asarray(w.call_float(f, s1), dtype=float)
        except Exception:  # noqa
            if ov is None:
                raise
            continue
        exp = a * s ** k
        if not (np.all(np.isfinite(exp)) and np.all(np.isfinite(b))):
            continue
        scale = max(np.abs(exp).max(), np.abs(b).max(), 1e-300)
        d = np.abs(b - exp).max() / scale
        shown = {kk: (vv.tolist() if kk == "observers" else spec["args"].get(kk)) for kk, vv in a1.items()}
        last = (bool(d > 1e-6), f"{w.func}(field={f}) args={shown} s={s}: F(X)*s^{k}={exp.tolist()} but F(s*X)={b.tolist()} (relative difference {d:.2e})")
        if last[0]:
            return last
    return last
