"""Shared plumbing of the E2 (SymNum) harnesses: a Case collects obligations, candidates, coverage and statistics."""
import itertools
import math
import time
from fractions import Fraction

import numpy as np
import z3

from symnum import CTX, S, SB, SymArray, SymRot, install, toz, tob, oarr, symarr, sym, explore, run_concrete
from symnum.core import consts_of, val_to_float, complete_env

_UQ = [(0, 0, 0, 1), (1, 1, 1, 1), (1, 2, 2, 4), (0, 3, 4, 0), (2, 3, 6, 0), (1, 4, 8, 0), (2, 2, 1, 0), (2, 4, 5, 6), (1, 1, 3, 5), (1, 2, 4, 2)]


def _norm(t):
    import math

    n = math.isqrt(sum(x * x for x in t))
    assert n * n == sum(x * x for x in t), t
    return tuple(Fraction(x, n) for x in t)


UNIT_QUATS = [_norm(t) for t in _UQ]
NICE = [0, 1, -1, Fraction(1, 2), Fraction(-1, 2), 2, -2, Fraction(1, 4), Fraction(-1, 4), 3, -3, Fraction(3, 2), Fraction(-3, 2), Fraction(3, 4), Fraction(-3, 4)]


def rv(x):
    if isinstance(x, Fraction):
        return z3.RealVal(str(x))
    return toz(x)


CURRENT = None


class Case:
    def __init__(self, case, info, qtimeout=None):
        self.case = case
        self.info = info
        self.tier = info["tier"]
        self.known = info.get("known", set())
        self.obligations = []
        self.candidates = []
        self.samples = []
        self.vacuous = []
        self.paths = 0
        self.decisions = 0
        self.validated = 0
        self.qtimeout = qtimeout or (10000 if self.tier == "quick" else 60000)
        self._witness_cache = {}
        self._found_keys = set()
        self.xcheck = {"done": 0, "limit": 3 if self.tier == "quick" else 12}
        CTX.hard_reset()
        CTX.timeout = self.qtimeout
        install.install()
        global CURRENT
        CURRENT = self

    # ------------------------------------------------------------------
    def count_paths(self, paths):
        self.paths += len(paths)
        self.decisions += sum(len(p.decisions) for p in paths)

    def concrete_trace(self, replay_fn, spec, key, reapply=None):
        """Model validation: the same scenario, with committed pseudo-random double values, through the UNPATCHED library (float64 arrays,
        scipy Rotation) and the harness's own oracle.  Guards the modelling assumption that object-dtype arrays of terms take the same
        code paths as float64 arrays (dtype / isinstance introspection in the code under test).  A violation seen here is a real run of
        the real code and is reported like a replayed counterexample; it is not part of the solver claim."""
        install.uninstall()
        try:
            bad, detail = replay_fn(spec)
        except Exception as e:  # noqa
            self.note_inconclusive("concrete-trace", f"{type(e).__name__}: {e}")
            return
        finally:
            install.install()
            if reapply is not None:
                reapply()
        self.validated += 1
        if bad and key not in self._found_keys:
            self._found_keys.add(key)
            self.candidates.append({"key": key, "replay": spec, "origin": "concrete-trace"})

    def witness(self, assumptions):
        """is the antecedent satisfiable?  ('sat' / 'unsat' / 'unknown')"""
        key = tuple(a.get_id() for a in assumptions)
        if key not in self._witness_cache:
            self._witness_cache[key] = CTX.check(list(assumptions), timeout=min(self.qtimeout, 4000))
        return self._witness_cache[key]

    def oblige(self, name, assumptions, negated, on_model=None, inputs=None, timeout=None, lemmas=(), sample=None, nice=True, quat_groups=(),
               key=None, keep=()):
        """obligation: assumptions => not negated.   negated: formula describing a violation.
        on_model(env) -> candidate dict (key, replay[, known_id]) or None.
        key: if a counterexample candidate with this key was already found in this case, the obligation is skipped
        (one witness per key is enough; keeps the check fast on a broken tree).
        keep: input variables that stay symbolic in the partial-instantiation search."""
        t = time.time()
        if key is not None and key in self._found_keys:
            self.obligations.append({"name": name, "status": "skipped", "note": f"a counterexample for {key} was already found in this case"})
            return "skipped"
        full_to = timeout or self.qtimeout
        q = list(assumptions) + list(lemmas) + [negated]
        res, s, backend = CTX.solve(q, full_to, guard=True, mode="quick")
        env = None
        if res == "unknown" and on_model is not None and getattr(self, "try_envs", None):
            # the concrete environments that seeded the exploration are cheap candidate models (float screening; replayed like every model)
            env = self.screen(q, self.try_envs)
            if env is not None:
                res, backend = "sat", "seed-env"
        if res == "unknown" and inputs and on_model is not None:
            # model search by partial concretisation before the long symbolic attempt (finding models is slower than refuting)
            env = self.instantiate_search(q, inputs, quat_groups, keep=keep)
            if env is not None:
                res, backend = "sat", "instantiation"
        if res == "unknown":
            res, s, backend = CTX.solve(q, full_to, guard=True, mode="rest")
        o = {"name": name, "status": res, "backend": backend, "time_s": None}
        if res == "unsat":
            w = self.witness(list(assumptions))
            o["witness"] = w
            # a sample of the discharged obligations is re-decided by a second solver (cvc5); a definite disagreement is a harness error
            if self.xcheck["done"] < self.xcheck["limit"] and backend != "syntactic":
                self.xcheck["done"] += 1
                r2 = CTX.cross_check(q)
                self.xcheck[r2] = self.xcheck.get(r2, 0) + 1
                o["cvc5"] = r2
                if r2 == "sat":
                    self.vacuous.append(f"solver disagreement on obligation {name}: z3 {backend} says unsat, cvc5 says sat")
            if w == "unsat":
                o["note"] = "antecedent unsatisfiable (infeasible path) - not counted as non-trivial"
        if res == "sat":
            if env is None and nice and inputs:
                env = self.nice_model(q, inputs)
            if env is None:
                env = self.env_of(s, q)
            o["model"] = {k: v for k, v in list(env.items())[:40]}
            if on_model is not None:
                cand = on_model(env)
                if cand is not None:
                    cand.setdefault("obligation", name)
                    self.candidates.append(cand)
                    self._found_keys.add(cand.get("key"))
                    if key is not None:
                        self._found_keys.add(key)
                else:
                    o["status"] = "unknown"
                    o["note"] = "model rejected by harness (outside claim)"
        o["time_s"] = round(time.time() - t, 3)
        self.obligations.append(o)
        if sample is not None and len(self.samples) < 3 and res == "unsat":
            self.samples.append({"case": self.case.get("id"), "obligation": name, "result": res, "what": sample})
        return res

    def screen_envs(self, assumptions, inputs, quat_groups=(), n=2):
        """concrete environments satisfying the assumptions (random small rationals / rational unit quaternions, else solver models);
        used only to discard pairs of applications whose arguments differ numerically before asking the solver for a proof"""
        saved = list(CTX.pre)
        try:
            CTX.pre = list(assumptions)
            envs = self.seed_envs(inputs, quat_groups, n=n)
        finally:
            CTX.pre = saved
        if len(envs) < n:
            res, sol, _ = CTX.solve(list(assumptions), 3000)
            if res == "sat":
                envs.append(self.env_of(sol, list(assumptions)))
        return envs

    def merge_uf(self, assumptions, goal, timeout=None, names=None, inputs=None, quat_groups=()):
        """congruence-guided rewriting: for pairs of applications of the same abstracted function whose arguments are provably
        equal under the assumptions, replace one result variable by the other in the goal.  Returns (new goal, merged, failed)."""
        timeout = timeout or self.qtimeout
        acc, seen = {}, set()
        consts_of(goal, acc, seen)
        merged = failed = 0
        subst = []
        envs = self.screen_envs(assumptions, inputs, quat_groups) if inputs else []

        def differ_numerically(a, ra):
            for env in envs:
                try:
                    e2 = dict(env)
                    complete_env(e2, list(a) + list(ra))
                    va = [CTX.evalf(x, e2) for x in a]
                    vb = [CTX.evalf(x, e2) for x in ra]
                except Exception:  # noqa
                    return False
                if any(abs(x - y) > 1e-7 * (1 + abs(x) + abs(y)) for x, y in zip(va, vb)):
                    return True
            return False

        for name, apps in CTX.uf_apps.items():
            if names is not None and not any(name.startswith(n) for n in names):
                continue
            rel = [(v, a) for v, a in apps if v.get_id() in acc]
            reps = []
            for v, a in rel:
                done = False
                for rv_, ra in reps:
                    if envs and differ_numerically(a, ra):
                        continue
                    diff = z3.Or(*[x != y for x, y in zip(a, ra)])
                    r = CTX.check(list(assumptions) + [diff], timeout=timeout)
                    if r == "unsat":
                        subst.append((v, rv_))
                        merged += 1
                        done = True
                        break
                    if r == "unknown":
                        failed += 1
                if not done:
                    reps.append((v, a))
        if subst:
            goal = z3.substitute(goal, *subst)
        return goal, merged, failed

    def env_of(self, solver, exprs):
        from symnum.core import EnvModel

        if isinstance(solver, EnvModel):
            return complete_env({k: v for k, v in solver.items() if "!" not in k}, exprs)
        m = solver.model()
        env = {}
        for d in m.decls():
            n = d.name()
            if "!" in n or d.arity() != 0:
                continue
            env[n] = val_to_float(m[d])
        return complete_env(env, exprs)

    def nice_model(self, q, inputs, timeout=4000):
        """look for a counterexample with small dyadic input values first (readable, robust in doubles)"""
        zs = []
        for v in inputs:
            z = toz(v) if not z3.is_expr(v) else v
            if z3.is_const(z) and z.decl().kind() == z3.Z3_OP_UNINTERPRETED:
                zs.append(z)
        for grid in (NICE[:5], NICE[:9], NICE):
            side = [z3.Or(*[z == rv(c) for c in grid]) for z in zs]
            res, s, _ = CTX.solve(q + side, timeout)
            if res == "sat":
                return self.env_of(s, q)
        return None

    def screen(self, q, envs):
        """first of the given concrete environments under which every formula of q evaluates to true in doubles (with the real semantics of
        the abstracted functions), or None"""
        CTX.feq_tol = 1e-9
        try:
            for env0 in envs:
                env = dict(env0)
                try:
                    complete_env(env, q)
                    if all(CTX.evalf(e, env) is True or CTX.evalf(e, env) == True for e in q):  # noqa: E712
                        return env
                except Exception:  # noqa
                    continue
        finally:
            CTX.feq_tol = None
        return None

    def instantiate_search(self, q, inputs, quat_groups=(), tries=2, timeout=2000, keep=()):
        """counterexample search by partial concretisation: input variables get concrete rationals (unit quaternions from a
        list of rational unit quaternions), the abstracted-function variables (and the `keep` inputs, in the first phase) stay
        symbolic and the solver decides the rest.  Returns env or None.  Only ever produces candidates (replayed before reported)."""
        import random

        rng = random.Random(self.info.get("seed", 0) * 7919 + len(self.obligations))
        full = list(q) + CTX.axioms_for(q)
        qvars = set()
        groups = []
        for g in quat_groups:
            zs = [toz(v) if not z3.is_expr(v) else v for v in g]
            if all(z3.is_const(z) and z.decl().kind() == z3.Z3_OP_UNINTERPRETED for z in zs):
                groups.append(zs)
                qvars.update(z.get_id() for z in zs)
        keep_ids = set()
        for v in keep:
            z = toz(v) if not z3.is_expr(v) else v
            keep_ids.add(z.get_id())
        zs_in = []
        for v in inputs:
            z = toz(v) if not z3.is_expr(v) else v
            if z3.is_const(z) and z.decl().kind() == z3.Z3_OP_UNINTERPRETED and z.get_id() not in qvars:
                zs_in.append(z)
        vals = [Fraction(k, 2) for k in range(-6, 7)] + [Fraction(k, 3) for k in (-4, -2, -1, 1, 2, 4)]
        # phase 0: float screening - evaluate the query under random concrete inputs with the real semantics of the abstracted
        # functions (CTX.evalf); a hit is only a candidate and is replayed on the plain library like every other model
        def draw():
            sub = []
            for g in groups:
                uq = list(random.Random(rng.random()).choice(UNIT_QUATS))
                rng.shuffle(uq)
                uq = [x * rng.choice((1, -1)) for x in uq]
                sub += [(z, x) for z, x in zip(g, uq)]
            for z in zs_in:
                sub.append((z, rng.choice(vals)))
            return sub

        CTX.feq_tol = 1e-9  # rounding noise must not look like a violated equality
        try:
            for _ in range(40):
                sub = draw()
                env = {str(z): float(x) for z, x in sub}
                try:
                    complete_env(env, q)
                    if all(CTX.evalf(e, env) is True or CTX.evalf(e, env) == True for e in q):  # noqa: E712
                        return env
                except Exception:  # noqa
                    break
        finally:
            CTX.feq_tol = None
        phases = []
        if keep_ids:
            phases.append(("keep", 1))
        else:
            phases.append(("half", 1))
        phases.append(("all", tries))
        for mode, n in phases:
            for _ in range(n):
                sub = []
                for g in groups:
                    uq = list(random.Random(rng.random()).choice(UNIT_QUATS))
                    rng.shuffle(uq)
                    uq = [x * rng.choice((1, -1)) for x in uq]
                    sub += [(z, rv(x)) for z, x in zip(g, uq)]
                for z in zs_in:
                    if mode == "keep" and z.get_id() in keep_ids:
                        continue
                    if mode == "half" and rng.random() < 0.5:
                        continue
                    sub.append((z, rv(rng.choice(vals))))
                if not sub:
                    continue
                inst = [z3.simplify(z3.substitute(e, *sub)) for e in full]
                if any(z3.is_false(e) for e in inst):
                    continue
                res, s, _ = CTX.solve(inst, timeout, with_axioms=False)
                if res == "sat":
                    env = self.env_of(s, inst)
                    for z, x in sub:
                        env[str(z)] = val_to_float(x)
                    return env
        return None

    def seed_envs(self, inputs, quat_groups=(), n=2, fixed=None):
        """generic concrete inputs (small rationals / rational unit quaternions) that satisfy CTX.pre: their paths are explored first"""
        import random

        rng = random.Random(12345 + self.info.get("seed", 0))
        qvars = {}
        for g in quat_groups:
            zs = [toz(v) if not z3.is_expr(v) else v for v in g]
            if all(z3.is_const(z) and z.decl().kind() == z3.Z3_OP_UNINTERPRETED for z in zs):
                qvars[tuple(str(z) for z in zs)] = zs
        names = []
        for v in inputs:
            z = toz(v) if not z3.is_expr(v) else v
            if z3.is_const(z) and z.decl().kind() == z3.Z3_OP_UNINTERPRETED:
                names.append(str(z))
        qnames = {nm for g in qvars for nm in g}
        vals = [Fraction(k, 4) for k in range(-11, 12) if k != 0]
        out = []
        for _ in range(40):
            env = {}
            for g in qvars:
                uq = list(rng.choice(UNIT_QUATS[1:]))
                rng.shuffle(uq)
                for nm, x in zip(g, uq):
                    env[nm] = float(x * rng.choice((1, -1)))
            for nm in names:
                if nm not in qnames:
                    env[nm] = float(rng.choice(vals))
            if fixed:
                env.update(fixed)
            try:
                e2 = dict(env)
                complete_env(e2, CTX.pre)
                if all(bool(CTX.evalf(c, e2)) for c in CTX.pre):
                    out.append(env)
            except Exception:  # noqa
                pass
            if len(out) >= n:
                break
        return out

    def note_inconclusive(self, name, why):
        self.obligations.append({"name": name, "status": "unknown", "note": why})

    def require_coverage(self, sites):
        """sites: list of (substring of 'file:line', value) that must be reached; missing -> vacuous"""
        for sub, val in sites:
            hit = any(sub in k and val in v for k, v in CTX.coverage.items())
            if not hit:
                self.vacuous.append(f"branch {sub}={val} never reached")

    def result(self):
        return {
            "obligations": self.obligations,
            "candidates": self.candidates,
            "samples": self.samples,
            "vacuous": self.vacuous,
            "paths": self.paths,
            "decisions": self.decisions,
            "validated": self.validated,
            "coverage": {k: sorted(v) for k, v in CTX.coverage.items()},
            "stats": CTX.stats.as_dict(),
            "xcheck": dict(self.xcheck),
        }


def env_arr(env, name, shape):
    """rebuild the float array of a symarr(name, shape) from a model env"""
    a = np.zeros(shape)
    for idx in np.ndindex(*shape):
        a[idx] = env.get(name + "_" + "_".join(map(str, idx)), 0.0) or 0.0
    return a


def arr_env(name, a):
    a = np.asarray(a, dtype=float)
    return {name + "_" + "_".join(map(str, idx)): float(a[idx]) for idx in np.ndindex(*a.shape)}


def evalf_arr(arr, env):
    arr = np.asarray(arr, dtype=object)
    out = np.zeros(arr.shape)
    for idx in np.ndindex(*arr.shape):
        out[idx] = CTX.evalf(toz(arr[idx]), env)
    return out


def neq_any(a, b):
    a = np.asarray(a, dtype=object).ravel()
    b = np.asarray(b, dtype=object).ravel()
    assert a.shape == b.shape, (a.shape, b.shape)
    return z3.Or(*[toz(x) != toz(y) for x, y in zip(a, b)])


def neq_rot(qa, qb):
    """formula: the quaternion arrays (.., 4) describe different rotations somewhere (q and -q are the same rotation)"""
    qa = np.asarray(qa, dtype=object).reshape(-1, 4)
    qb = np.asarray(qb, dtype=object).reshape(-1, 4)
    assert qa.shape == qb.shape, (qa.shape, qb.shape)
    terms = []
    for a, b in zip(qa, qb):
        terms.append(z3.And(z3.Or(*[toz(x) != toz(y) for x, y in zip(a, b)]), z3.Or(*[toz(x) != -toz(y) for x, y in zip(a, b)])))
    return z3.Or(*terms)


def rel_close(a, b, rtol=1e-9, atol=0.0):
    a = np.asarray(a, dtype=float)
    b = np.asarray(b, dtype=float)
    if a.shape != b.shape:
        return False
    if not (np.all(np.isfinite(a)) and np.all(np.isfinite(b))):
        return bool(np.all((a == b) | (np.isnan(a) & np.isnan(b))))
    scale = max(np.abs(a).max(initial=0), np.abs(b).max(initial=0))
    return bool(np.abs(a - b).max(initial=0) <= atol + rtol * scale)


def plain():
    """context manager: run a block on the unpatched library (for translator validation inside workers)"""

    class _P:
        def __enter__(self):
            install.uninstall()

        def __exit__(self, *a):
            install.install()
            return False

    return _P()
