"""Shared plumbing of the E2 (SymNum) harnesses: a Case collects obligations, candidates, coverage and statistics."""
import itertools
import math
import time
from fractions import Fraction

import numpy as np
import z3

from symnum import CTX, S, SB, SymArray, SymRot, install, toz, tob, oarr, symarr, sym, explore, run_concrete
from symnum.core import consts_of, val_to_float, complete_env

NICE = [0, 1, -1, Fraction(1, 2), Fraction(-1, 2), 2, -2, Fraction(1, 4), Fraction(-1, 4), 3, -3, Fraction(3, 2), Fraction(-3, 2), Fraction(3, 4), Fraction(-3, 4)]


def rv(x):
    if isinstance(x, Fraction):
        return z3.RealVal(str(x))
    return toz(x)


class Case:
    def __init__(self, case, info, qtimeout=None):
        self.case = case
        self.info = info
        self.tier = info["tier"]
        self.known = info.get("known", set())
        self.obligations = []
        self.candidates = []
        self.samples = []
        self.vacuous = []
        self.paths = 0
        self.decisions = 0
        self.validated = 0
        self.qtimeout = qtimeout or (10000 if self.tier == "quick" else 60000)
        self._witness_cache = {}
        CTX.hard_reset()
        CTX.timeout = self.qtimeout
        install.install()

    # ------------------------------------------------------------------
    def count_paths(self, paths):
        self.paths += len(paths)
        self.decisions += sum(len(p.decisions) for p in paths)

    def witness(self, assumptions):
        """is the antecedent satisfiable?  ('sat' / 'unsat' / 'unknown')"""
        key = tuple(a.get_id() for a in assumptions)
        if key not in self._witness_cache:
            self._witness_cache[key] = CTX.check(list(assumptions), timeout=min(self.qtimeout, 10000))
        return self._witness_cache[key]

    def oblige(self, name, assumptions, negated, on_model=None, inputs=None, timeout=None, lemmas=(), sample=None, nice=True):
        """obligation: assumptions => not negated.   negated: formula describing a violation.
        on_model(env) -> candidate dict (key, replay[, known_id]) or None"""
        t = time.time()
        q = list(assumptions) + list(lemmas) + [negated]
        res, s, backend = CTX.solve(q, timeout or self.qtimeout)
        o = {"name": name, "status": res, "backend": backend, "time_s": None}
        if res == "unsat":
            w = self.witness(list(assumptions))
            o["witness"] = w
            if w == "unsat":
                o["note"] = "antecedent unsatisfiable (infeasible path) - not counted as non-trivial"
        elif res == "sat":
            env = None
            if nice and inputs:
                env = self.nice_model(q, inputs)
            if env is None:
                env = self.env_of(s, q)
            o["model"] = {k: v for k, v in list(env.items())[:40]}
            if on_model is not None:
                cand = on_model(env)
                if cand is not None:
                    cand.setdefault("obligation", name)
                    self.candidates.append(cand)
                else:
                    o["status"] = "unknown"
                    o["note"] = "model rejected by harness (outside claim)"
        o["time_s"] = round(time.time() - t, 3)
        self.obligations.append(o)
        if sample is not None and len(self.samples) < 3 and res == "unsat":
            self.samples.append({"case": self.case.get("id"), "obligation": name, "result": res, "what": sample})
        return res

    def env_of(self, solver, exprs):
        m = solver.model()
        env = {}
        for d in m.decls():
            n = d.name()
            if "!" in n or d.arity() != 0:
                continue
            env[n] = val_to_float(m[d])
        return complete_env(env, exprs)

    def nice_model(self, q, inputs, timeout=4000):
        """look for a counterexample with small dyadic input values first (readable, robust in doubles)"""
        zs = []
        for v in inputs:
            z = toz(v) if not z3.is_expr(v) else v
            if z3.is_const(z) and z.decl().kind() == z3.Z3_OP_UNINTERPRETED:
                zs.append(z)
        for grid in (NICE[:5], NICE[:9], NICE):
            side = [z3.Or(*[z == rv(c) for c in grid]) for z in zs]
            res, s, _ = CTX.solve(q + side, timeout)
            if res == "sat":
                return self.env_of(s, q)
        return None

    def note_inconclusive(self, name, why):
        self.obligations.append({"name": name, "status": "unknown", "note": why})

    def require_coverage(self, sites):
        """sites: list of (substring of 'file:line', value) that must be reached; missing -> vacuous"""
        for sub, val in sites:
            hit = any(sub in k and val in v for k, v in CTX.coverage.items())
            if not hit:
                self.vacuous.append(f"branch {sub}={val} never reached")

    def result(self):
        return {
            "obligations": self.obligations,
            "candidates": self.candidates,
            "samples": self.samples,
            "vacuous": self.vacuous,
            "paths": self.paths,
            "decisions": self.decisions,
            "validated": self.validated,
            "coverage": {k: sorted(v) for k, v in CTX.coverage.items()},
            "stats": CTX.stats.as_dict(),
        }


def env_arr(env, name, shape):
    """rebuild the float array of a symarr(name, shape) from a model env"""
    a = np.zeros(shape)
    for idx in np.ndindex(*shape):
        a[idx] = env.get(name + "_" + "_".join(map(str, idx)), 0.0) or 0.0
    return a


def arr_env(name, a):
    a = np.asarray(a, dtype=float)
    return {name + "_" + "_".join(map(str, idx)): float(a[idx]) for idx in np.ndindex(*a.shape)}


def evalf_arr(arr, env):
    arr = np.asarray(arr, dtype=object)
    out = np.zeros(arr.shape)
    for idx in np.ndindex(*arr.shape):
        out[idx] = CTX.evalf(toz(arr[idx]), env)
    return out


def neq_any(a, b):
    a = np.asarray(a, dtype=object).ravel()
    b = np.asarray(b, dtype=object).ravel()
    assert a.shape == b.shape, (a.shape, b.shape)
    return z3.Or(*[toz(x) != toz(y) for x, y in zip(a, b)])


def rel_close(a, b, rtol=1e-9, atol=0.0):
    a = np.asarray(a, dtype=float)
    b = np.asarray(b, dtype=float)
    if a.shape != b.shape:
        return False
    if not (np.all(np.isfinite(a)) and np.all(np.isfinite(b))):
        return bool(np.all((a == b) | (np.isnan(a) & np.isnan(b))))
    scale = max(np.abs(a).max(initial=0), np.abs(b).max(initial=0))
    return bool(np.abs(a - b).max(initial=0) <= atol + rtol * scale)


def plain():
    """context manager: run a block on the unpatched library (for translator validation inside workers)"""

    class _P:
        def __enter__(self):
            install.uninstall()

        def __exit__(self, *a):
            install.install()
            return False

    return _P()
