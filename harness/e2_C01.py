"""C01  fields equal the magnetostatic integrals (decidable part).

Decided for all real inputs: Dipole == point-dipole formula; Sphere == 2/3 J inside, dipole formula with m = J V / mu0 outside;
straight Polyline segment == the cross-product form of the Biot-Savart result (an expression derived independently of the
code's projection / sin(theta) form) for segment endpoints from a committed rational list; Circle on its axis == the textbook
on-axis formula; Cuboid mirror covariance (pseudo-vector behaviour under x,y,z reflections) on every feasible fold path, which
decides every entry of the quadrant sign tables.
"""
import importlib

import numpy as np
import z3

from symnum import CTX, S, oarr, symarr, sym, toz, dof, explore
from .common import Case, neq_any, rel_close
from .wrappers import WRAPPERS, apply_cuts

PROPERTY = "C01"
FUNCTIONS = [
    "magpylib._src.fields.field_BH_dipole:dipole_Hfield",
    "magpylib._src.fields.field_BH_dipole:BHJM_dipole",
    "magpylib._src.fields.field_BH_sphere:BHJM_magnet_sphere",
    "magpylib._src.fields.field_BH_polyline:current_polyline_Hfield",
    "magpylib._src.fields.field_BH_polyline:BHJM_current_polyline",
    "magpylib._src.fields.field_BH_circle:BHJM_circle",
    "magpylib._src.fields.field_BH_cuboid:magnet_cuboid_Bfield",
    "magpylib._src.fields.field_BH_cuboid:BHJM_magnet_cuboid",
]
BOUNDS = [
    "1 row; observer / excitation / dimensions fully symbolic (all reals); Polyline endpoints from a committed list of rational pairs",
    "Cuboid mirror covariance: observers off the three mirror planes (on-plane path pairs need log(A)=log(B) through square-root definitions: attempted, may stay inconclusive)",
]
CUTS = ["atan2 / log are uninterpreted functions (the mirror obligations only need that both evaluations reach the kernel at the same folded point)", "cel_iter cut (Circle off-axis is not decided)"]
ASSUMPTIONS = ["real arithmetic; the double nearest to pi and scipy's mu_0 as the code uses them"]
NOT_DECIDED = [
    "the closed forms of Cuboid, Cylinder, CylinderSegment, Triangle (and Tetrahedron / TriangularMesh built on it) and off-axis Circle against the surface-charge / Biot-Savart "
    "integrals: combinations of atan2, log and elliptic iterations whose equality with the integrals rests on calculus; a changed coefficient inside such a kernel is invisible here",
    "numerical accuracy in doubles",
]

SEGMENTS = {
    "x-axis": ((0, 0, 0), (1, 0, 0)),
    "oblique-rational-length": ((1, -1, 0), (3, 0, 2)),
    "reversed": ((3, 0, 2), (1, -1, 0)),
    "short": ((0, 0, 0), (0, 0, 0.0009765625)),
    "long": ((-512, 0, 0), (512, 0, 0)),
    "345": ((0, 1, 1), (3, 5, 1)),
}


def cases(tier, seed):
    out = [{"id": "dipole", "kind": "dipole", "weight": 1}, {"id": "sphere", "kind": "sphere", "weight": 1}, {"id": "circle-axis", "kind": "circle", "weight": 1}]
    for nm in SEGMENTS:
        out.append({"id": f"polyline-{nm}", "kind": "polyline", "segment": nm, "weight": 3})
    for ax in range(3):
        out.append({"id": f"cuboid-mirror-{'xyz'[ax]}", "kind": "mirror", "axis": ax, "weight": 4})
    out.append({"id": "cuboid-special-sets", "kind": "special", "weight": 2})
    return out


def run_case(case, info):
    C = Case(case, info)
    {"dipole": _dipole, "sphere": _sphere, "circle": _circle, "polyline": _polyline, "mirror": _mirror, "special": _special}[case["kind"]](C)
    return C.result()


def _sq(v):
    return v[0] * v[0] + v[1] * v[1] + v[2] * v[2]


def _dipole(C):
    from magpylib._src.fields import field_BH_dipole as M

    obs, mom = symarr("observers", (1, 3)), symarr("moment", (1, 3))
    inputs = list(obs.ravel()) + list(mom.ravel())
    PI, MU0 = S(toz(float(np.pi))), S(toz(M.MU0))

    def run():
        return {f: M.BHJM_dipole(field=f, observers=obs.copy(), moment=mom.copy()) for f in "BH"}

    def on_path(p):
        C.paths += 1
        if p.status != "ok":
            return
        o, m = list(obs[0]), list(mom[0])
        r2 = _sq(o)
        r = r2.sqrt()
        md = m[0] * o[0] + m[1] * o[1] + m[2] * o[2]
        Href = [(3 * md * o[c] / r**5 - m[c] / r**3) / (4 * PI) for c in range(3)]
        nz = [r2.z != 0]
        for f, ref in (("H", Href), ("B", [MU0 * h for h in Href])):
            out = p.out[f]
            C.oblige(f"p{C.paths}.{f}==point-dipole-formula", p.pc + nz, neq_any(out[0], np.array(ref, dtype=object)), inputs=inputs, key=f"C01|dipole|{f}",
                     on_model=lambda env, f=f: {"key": f"C01|dipole|{f}", "replay": {"kind": "dipole", "field": f, "env": env}},
                     sample="BHJM_dipole == (3 r (m.r) - m r^2) / (4 pi r^5) (times mu_0 for B) for all r != 0")

    paths = explore(run, max_paths=20, on_path=on_path, seeds=C.seed_envs(inputs, n=1))
    C.decisions += sum(len(p.decisions) for p in paths)


def _sphere(C):
    from magpylib._src.fields import field_BH_sphere as M

    obs, dia, pol = symarr("observers", (1, 3)), symarr("diameter", (1,)), symarr("polarization", (1, 3))
    CTX.pre = [toz(dia[0]) > 0]
    inputs = list(obs.ravel()) + list(dia) + list(pol.ravel())
    MU0 = S(toz(M.MU0))

    def run():
        return {f: M.BHJM_magnet_sphere(field=f, observers=obs.copy(), diameter=dia.copy(), polarization=pol.copy()) for f in "BH"}

    def on_path(p):
        C.paths += 1
        if p.status != "ok":
            return
        o, J = list(obs[0]), list(pol[0])
        R = dia[0] / 2
        r2 = _sq(o)
        r = r2.sqrt()
        inside = r2.z < (R * R).z
        outside = r2.z > (R * R).z
        Bin = [J[c] * S(toz(2 / 3)) for c in range(3)]  # the double nearest to 2/3, as the code uses it
        Jd = J[0] * o[0] + J[1] * o[1] + J[2] * o[2]
        Bout = [(3 * Jd * o[c] - J[c] * r2) / r**5 * (R * R * R) / 3 for c in range(3)]
        for f in "BH":
            out = p.out[f]
            refin = Bin if f == "B" else [(Bin[c] - J[c]) / MU0 for c in range(3)]
            refout = Bout if f == "B" else [b / MU0 for b in Bout]
            mk = lambda region, f=f: (lambda env: {"key": f"C01|sphere|{f}|{region}", "replay": {"kind": "sphere", "field": f, "env": env}})
            C.oblige(f"p{C.paths}.{f}.inside==2/3J", p.pc + [inside], neq_any(out[0], np.array(refin, dtype=object)), inputs=inputs, on_model=mk("inside"), key=f"C01|sphere|{f}|inside",
                     sample="Sphere inside: B = 2/3 J, H = -1/3 J / mu_0")
            C.oblige(f"p{C.paths}.{f}.outside==dipole", p.pc + [outside], neq_any(out[0], np.array(refout, dtype=object)), inputs=inputs, on_model=mk("outside"), key=f"C01|sphere|{f}|outside")

    paths = explore(run, max_paths=20, on_path=on_path, seeds=C.seed_envs(inputs, n=2))
    C.decisions += sum(len(p.decisions) for p in paths)


def _circle(C):
    from magpylib._src.fields import field_BH_circle as M

    apply_cuts(["cel_iter"])
    z, dia, cur = sym("z"), symarr("diameter", (1,)), symarr("current", (1,))
    obs = oarr(np.array([[S(toz(0)), S(toz(0)), z]], dtype=object))
    CTX.pre = [toz(dia[0]) > 0]
    inputs = [z] + list(dia) + list(cur)

    def run():
        return M.BHJM_circle(field="H", observers=obs.copy(), diameter=dia.copy(), current=cur.copy())

    def on_path(p):
        C.paths += 1
        if p.status != "ok":
            return
        r0 = dia[0] / 2
        d2 = z * z + r0 * r0
        Hz = cur[0] * r0 * r0 / (2 * d2 * d2.sqrt())
        ref = np.array([S(toz(0)), S(toz(0)), Hz], dtype=object)
        C.oblige(f"p{C.paths}.on-axis==I r0^2/(2 (z^2+r0^2)^1.5)", p.pc, neq_any(p.out[0], ref), inputs=inputs, key="C01|circle|axis",
                 on_model=lambda env: {"key": "C01|circle|axis", "replay": {"kind": "circle", "env": env}},
                 sample="Circle on its axis: H = (0, 0, I r0^2 / (2 (z^2 + r0^2)^(3/2)))")

    paths = explore(run, max_paths=20, on_path=on_path)
    C.decisions += sum(len(p.decisions) for p in paths)


def _polyline(C):
    from magpylib._src.fields import field_BH_polyline as M

    a, b = SEGMENTS[C.case["segment"]]
    P1, P2 = oarr(np.array([a], dtype=float)), oarr(np.array([b], dtype=float))
    obs, cur = symarr("observers", (1, 3)), symarr("current", (1,))
    inputs = list(obs.ravel()) + list(cur)
    PI = S(toz(float(np.pi)))

    def run():
        return M.BHJM_current_polyline(field="H", observers=obs.copy(), segment_start=P1.copy(), segment_end=P2.copy(), current=cur.copy())

    def on_path(p):
        C.paths += 1
        if p.status != "ok":
            C.note_inconclusive(f"p{C.paths}", f"aborted: {p.out}")
            return
        o = list(obs[0])
        r1 = [P1[0, k] - o[k] for k in range(3)]
        r2 = [P2[0, k] - o[k] for k in range(3)]
        cr = [r1[1] * r2[2] - r1[2] * r2[1], r1[2] * r2[0] - r1[0] * r2[2], r1[0] * r2[1] - r1[1] * r2[0]]
        n1, n2 = _sq(r1).sqrt(), _sq(r2).sqrt()
        dot = r1[0] * r2[0] + r1[1] * r2[1] + r1[2] * r2[2]
        den = n1 * n2 * (n1 * n2 + dot)
        ref = [cur[0] / (4 * PI) * cr[c] * (n1 + n2) / den for c in range(3)]
        # the property quantifies over observers at relative distance >= 1e-3 of the source size from the wire
        L2 = _sq([P2[0, k] - P1[0, k] for k in range(3)])
        off_line = (_sq(cr)).z >= (L2 * L2).z * z3.RealVal("1/1000000")
        on_line = z3.And(*[c.z == 0 for c in cr])
        out = p.out
        mk = lambda region: (lambda env: {"key": f"C01|polyline|{region}", "replay": {"kind": "polyline", "segment": C.case["segment"], "env": env}})
        C.oblige(f"p{C.paths}.H==Biot-Savart(cross-product form)", p.pc + [off_line] + [dof(x) for x in np.asarray(out, dtype=object).ravel()], neq_any(out[0], np.array(ref, dtype=object)),
                 inputs=inputs, on_model=mk("off-line"), key="C01|polyline|off-line", timeout=6000 if C.tier == "quick" else 120000,
                 sample="straight segment: H == I/(4 pi) (r1 x r2)(|r1|+|r2|) / (|r1||r2|(|r1||r2| + r1.r2)) for all observers off the carrier line")
        C.oblige(f"p{C.paths}.on-carrier-line==0", p.pc + [on_line], z3.Or(*[toz(out[0, c]) != 0 for c in range(3)]), inputs=inputs, on_model=mk("on-line"), key="C01|polyline|on-line")

    paths = explore(run, max_paths=30, on_path=on_path, seeds=C.seed_envs(inputs, n=2))
    C.decisions += sum(len(p.decisions) for p in paths)


def _mirror(C):
    from magpylib._src.fields import field_BH_cuboid as M

    ax = C.case["axis"]
    obs, dim, pol = symarr("observers", (1, 3)), symarr("dimension", (1, 3)), symarr("polarization", (1, 3))
    CTX.pre = [toz(dim[0, i]) > 0 for i in range(3)] + [toz(obs[0, i]) != 0 for i in range(3)]
    inputs = list(obs.ravel()) + list(dim.ravel()) + list(pol.ravel())
    sig = np.ones((1, 3))
    sig[0, ax] = -1
    ps = -np.ones((1, 3))  # pseudo-vector action of the reflection: det(sigma) * sigma
    ps[0, ax] = 1

    def run():
        B1 = M.BHJM_magnet_cuboid(field="B", observers=obs.copy(), dimension=dim.copy(), polarization=pol.copy())
        B2 = M.BHJM_magnet_cuboid(field="B", observers=obs * sig, dimension=dim.copy(), polarization=pol * ps)
        return B1, B2

    def on_path(p):
        C.paths += 1
        if p.status != "ok":
            C.note_inconclusive(f"p{C.paths}", f"aborted: {p.out}")
            return
        B1, B2 = p.out
        viol = z3.Or(*[toz(B2[0, c]) != float(ps[0, c]) * toz(B1[0, c]) for c in range(3)])
        C.oblige(f"p{C.paths}.B(sigma o; sigma~ J)==sigma~ B(o; J)", p.pc, viol, inputs=inputs, key=f"C01|cuboid|mirror-{'xyz'[ax]}",
                 on_model=lambda env: {"key": f"C01|cuboid|mirror-{'xyz'[ax]}", "replay": {"kind": "mirror", "axis": ax, "env": env}},
                 sample=f"Cuboid: reflecting the observer in the {'xyz'[ax]}-mirror plane and the polarization as a pseudo-vector reflects B as a pseudo-vector")

    paths = explore(run, max_paths=120 if C.tier == "quick" else 1000, on_path=on_path, seeds=C.seed_envs(inputs, n=2))
    C.decisions += sum(len(p.decisions) for p in paths)
    if explore.truncated:
        C.note_inconclusive("path-budget", "path budget hit")


def _special(C):
    """the closed form may only be bypassed (B forced to 0) on the documented special set: an EDGE of the body.  Off the surface the field of
    first principles is continuous, so a bypass anywhere else (e.g. on the straight extension of an edge) is a wrong value."""
    from magpylib._src.fields import field_BH_cuboid as M

    obs, dim, pol = symarr("observers", (1, 3)), symarr("dimension", (1, 3)), symarr("polarization", (1, 3))
    CTX.pre = [toz(dim[0, i]) > 0 for i in range(3)] + [z3.Or(*[toz(pol[0, i]) != 0 for i in range(3)])]
    inputs = list(obs.ravel()) + list(dim.ravel()) + list(pol.ravel())
    called = []
    orig = M.magnet_cuboid_Bfield

    def spy(observers, dimensions, polarizations):
        called.append(len(observers))
        return orig(observers=observers, dimensions=dimensions, polarizations=polarizations)

    def run():
        called.clear()
        M.magnet_cuboid_Bfield = spy
        try:
            M.BHJM_magnet_cuboid(field="B", observers=obs.copy(), dimension=dim.copy(), polarization=pol.copy())
        finally:
            M.magnet_cuboid_Bfield = orig
        return sum(called)

    def on_path(p):
        C.paths += 1
        if p.status != "ok":
            return
        if p.out >= 1:
            C.obligations.append({"name": f"p{C.paths}.kernel-evaluated", "status": "unsat", "witness": "sat", "note": "general closed form used on this path"})
            return
        o = [toz(obs[0, k]) for k in range(3)]
        h = [toz(dim[0, k]) / 2 for k in range(3)]
        tol = z3.RealVal("1/100000000000000")  # 1e-14 relative: ten times the library's own surface tolerance
        ab = lambda e: z3.If(e >= 0, e, -e)
        on = [ab(ab(o[k]) - h[k]) <= tol * h[k] for k in range(3)]
        within = [ab(o[k]) <= h[k] * (1 + tol) for k in range(3)]
        on_edge = z3.Or(z3.And(on[1], on[2], within[0]), z3.And(on[0], on[2], within[1]), z3.And(on[0], on[1], within[2]))
        C.oblige(f"p{C.paths}.bypass-only-on-an-edge", p.pc, z3.Not(on_edge), inputs=inputs, key="C01|cuboid|bypass-off-edge",
                 on_model=lambda env: {"key": "C01|cuboid|bypass-off-edge", "replay": {"kind": "special", "env": env}},
                 sample="Cuboid: the closed form is bypassed (B := 0) only for observers on an edge of the body (within 1e-14 relative)")

    paths = explore(run, max_paths=120, on_path=on_path, seeds=C.seed_envs(inputs, n=1))
    C.decisions += sum(len(p.decisions) for p in paths)


# ----------------------------------------------------------------------------- replay (independent float formulas / quadrature-free)
def replay(spec):
    import magpylib as m

    env = spec.get("env") or {}
    g = lambda k, d=0.0: (env.get(k) if env.get(k) is not None else d)
    kind = spec["kind"]
    if kind == "dipole":
        from magpylib._src.fields.field_BH_dipole import BHJM_dipole

        o = np.array([[g(f"observers_0_{k}") for k in range(3)]])
        mo = np.array([[g(f"moment_0_{k}") for k in range(3)]])
        r = np.linalg.norm(o[0])
        if r == 0:
            return False, "r = 0 (documented singular point)"
        H = (3 * o[0] * np.dot(mo[0], o[0]) - mo[0] * r**2) / (4 * np.pi * r**5)
        ref = H if spec["field"] == "H" else H * m.mu_0
        out = BHJM_dipole(field=spec["field"], observers=o, moment=mo)[0]
        return not rel_close(out, ref, 1e-9, 1e-300), f"dipole {spec['field']} at {o.tolist()} m={mo.tolist()}: {out.tolist()} vs formula {ref.tolist()}"
    if kind == "sphere":
        from magpylib._src.fields.field_BH_sphere import BHJM_magnet_sphere

        o = np.array([[g(f"observers_0_{k}") for k in range(3)]])
        J = np.array([[g(f"polarization_0_{k}") for k in range(3)]])
        D = np.array([g("diameter_0", 1.0)])
        r, R = np.linalg.norm(o[0]), D[0] / 2
        if abs(r - R) < 1e-9 * R:
            return False, "on the surface"
        if r < R:
            B = 2 / 3 * J[0]
            H = (B - J[0]) / m.mu_0
        else:
            B = (3 * o[0] * np.dot(J[0], o[0]) - J[0] * r**2) / r**5 * R**3 / 3
            H = B / m.mu_0
        ref = B if spec["field"] == "B" else H
        out = BHJM_magnet_sphere(field=spec["field"], observers=o, diameter=D, polarization=J)[0]
        return not rel_close(out, ref, 1e-9, 1e-300), f"sphere {spec['field']} at {o.tolist()} D={D.tolist()} J={J.tolist()}: {out.tolist()} vs formula {ref.tolist()}"
    if kind == "circle":
        from magpylib._src.fields.field_BH_circle import BHJM_circle

        z, D, I = g("z"), g("diameter_0", 1.0), g("current_0", 1.0)
        r0 = D / 2
        ref = np.array([0, 0, I * r0**2 / (2 * (z * z + r0 * r0) ** 1.5)])
        out = BHJM_circle(field="H", observers=np.array([[0.0, 0.0, z]]), diameter=np.array([D]), current=np.array([I]))[0]
        return not rel_close(out, ref, 1e-9, 1e-300), f"circle on axis z={z} D={D} I={I}: {out.tolist()} vs formula {ref.tolist()}"
    if kind == "polyline":
        from magpylib._src.fields.field_BH_polyline import BHJM_current_polyline

        a, b = [np.array(x, dtype=float) for x in SEGMENTS[spec["segment"]]]
        o = np.array([g(f"observers_0_{k}") for k in range(3)])
        I = g("current_0", 1.0)
        r1, r2 = a - o, b - o
        cr = np.cross(r1, r2)
        out = BHJM_current_polyline(field="H", observers=o[None], segment_start=a[None], segment_end=b[None], current=np.array([I]))[0]
        if np.linalg.norm(cr) < 1e-12 * max(np.linalg.norm(r1) * np.linalg.norm(r2), 1e-300):
            return bool(np.abs(out).max() > 0) and np.all(np.isfinite(out)), f"on the carrier line: H={out.tolist()} (expected 0)"
        n1, n2 = np.linalg.norm(r1), np.linalg.norm(r2)
        ref = I / (4 * np.pi) * cr * (n1 + n2) / (n1 * n2 * (n1 * n2 + np.dot(r1, r2)))
        return not rel_close(out, ref, 1e-8, 1e-300), f"segment {spec['segment']} observer {o.tolist()} I={I}: H={out.tolist()} vs Biot-Savart {ref.tolist()}"
    if kind == "special":
        from magpylib._src.fields.field_BH_cuboid import BHJM_magnet_cuboid

        o = np.array([[g(f"observers_0_{k}") for k in range(3)]])
        d = np.array([[g(f"dimension_0_{k}", 1.0) for k in range(3)]])
        J = np.array([[g(f"polarization_0_{k}", 0.5) for k in range(3)]])
        if not np.any(J):
            J = np.array([[0.3, 0.2, 1.0]])
        inside_or_on = np.all(np.abs(o[0]) <= d[0] / 2 * (1 + 1e-9))
        if inside_or_on:
            return False, "observer on the body"
        B0 = BHJM_magnet_cuboid(field="B", observers=o, dimension=d, polarization=J)[0]
        # off the body the field is continuous: compare with the mean of close neighbours
        rng = np.random.default_rng(0)
        nb = []
        for _ in range(6):
            dlt = rng.normal(size=3)
            dlt *= 1e-6 * np.linalg.norm(d) / np.linalg.norm(dlt)
            nb.append(BHJM_magnet_cuboid(field="B", observers=o + dlt, dimension=d, polarization=J)[0])
        Bn = np.mean(nb, axis=0)
        jump = np.linalg.norm(B0 - Bn) / max(np.linalg.norm(Bn), 1e-300)
        return bool(jump > 1e-3), f"cuboid d={d.tolist()} J={J.tolist()} observer {o.tolist()} (off the body): B={B0.tolist()} but neighbours at 1e-6 have B~{Bn.tolist()} (relative jump {jump:.2e})"
    if kind == "mirror":
        from magpylib._src.fields.field_BH_cuboid import BHJM_magnet_cuboid

        ax = spec["axis"]
        o = np.array([[g(f"observers_0_{k}") for k in range(3)]])
        d = np.array([[g(f"dimension_0_{k}", 1.0) for k in range(3)]])
        J = np.array([[g(f"polarization_0_{k}") for k in range(3)]])
        sig = np.ones(3)
        sig[ax] = -1
        ps = -np.ones(3)
        ps[ax] = 1
        B1 = BHJM_magnet_cuboid(field="B", observers=o, dimension=d, polarization=J)[0]
        B2 = BHJM_magnet_cuboid(field="B", observers=o * sig, dimension=d, polarization=J * ps)[0]
        return not rel_close(B2, ps * B1, 1e-9, 1e-300), f"cuboid d={d.tolist()} J={J.tolist()}: B(o)={B1.tolist()} at o={o.tolist()}, B(mirror)={B2.tolist()} expected {(ps * B1).tolist()}"
    raise ValueError(kind)
