"""CrossHair harness functions for C11: the collection tree stays a consistent forest under any history.

Inductive step: symbolic integers choose an arbitrary VALID forest over a small universe of concrete objects (state installed
directly through _parent/_children + _update_src_and_sens; validity = the invariant itself) and one tree-editing operation with
all flag values, including argument lists that make the call raise part-way.  The invariant must hold afterwards, whether the
call returned or raised.  Objects are created once at import and only their tree links are reset per path.
"""
import os

import magpylib as magpy
from magpylib import Collection, Sensor
from magpylib._src.obj_classes.class_BaseExcitations import BaseSource
from magpylib.misc import Dipole

NCOLL = int(os.environ.get("VF_C11_NCOLL", "2"))
_COLLS = [Collection() for _ in range(NCOLL)]
_s = Sensor()
_d = Dipole(moment=(1, 0, 0))
_OBJS = _COLLS + [_s, _d]
N = len(_OBJS)


def _reset():
    for o in _OBJS:
        o._parent = None
    for c in _COLLS:
        c._children = []
        c._sources = []
        c._sensors = []
        c._collections = []


def _valid(par) -> bool:
    """par[i] in -1..NCOLL-1 ; no self parent ; acyclic among collections"""
    for i, p in enumerate(par):
        if p < -1 or p >= NCOLL or p == i:
            return False
    for i in range(NCOLL):
        seen = 0
        j = i
        while par[j] != -1:
            j = par[j]
            seen += 1
            if seen > NCOLL:
                return False
    return True


def _build(par):
    _reset()
    for i, p in enumerate(par):
        if p >= 0:
            _OBJS[i]._parent = _OBJS[p]
            _OBJS[p]._children.append(_OBJS[i])
    for c in _COLLS:
        c._update_src_and_sens()


def _flatten(c, depth=0):
    out = []
    if depth > 8:
        return out
    for x in c._children:
        out.append(x)
        if isinstance(x, Collection):
            out += _flatten(x, depth + 1)
    return out


def _same(a, b) -> bool:
    return len(a) == len(b) and all(x is y for x, y in zip(a, b))


def _inv(extra_colls=()) -> bool:
    return _inv_over(list(_COLLS) + list(extra_colls), list(_OBJS) + list(extra_colls))


def _inv_over(colls, objs) -> bool:
    for o in objs:
        p = o._parent
        if p is not None and not any(p is c for c in colls):
            return False
        for c in colls:
            n = sum(1 for x in c._children if x is o)
            if n > 1:
                return False
            if (n == 1) != (p is c):
                return False
    for c in colls:  # acyclic
        j, steps = c, 0
        while j._parent is not None:
            j = j._parent
            steps += 1
            if steps > len(colls):
                return False
        if any(x is c for x in c._children):
            return False
    for c in colls:
        ch = c._children
        if not _same(c._sources, [x for x in ch if isinstance(x, BaseSource)]):
            return False
        if not _same(c._sensors, [x for x in ch if isinstance(x, Sensor)]):
            return False
        if not _same(c._collections, [x for x in ch if isinstance(x, Collection)]):
            return False
        fl = _flatten(c)
        if not _same(c.children_all, fl):
            return False
        if not _same(c.sources_all, [x for x in fl if isinstance(x, BaseSource)]):
            return False
        if not _same(c.sensors_all, [x for x in fl if isinstance(x, Sensor)]):
            return False
        if not _same(c.collections_all, [x for x in fl if isinstance(x, Collection)]):
            return False
    return True


def _par4(p0: int, p1: int, p2: int, p3: int, p4: int):
    return [p0, p1, p2, p3, p4][:N] if NCOLL == 3 else [p0, p1, p2, p3]


# every harness takes p0..p4 (p4 ignored for the 4-object universe)
def h_add1(p0: int, p1: int, p2: int, p3: int, p4: int, tgt: int, x: int, override: bool) -> bool:
    """
    pre: _valid(_par4(p0, p1, p2, p3, p4)) and 0 <= tgt < NCOLL and 0 <= x < N and -1 <= p4 <= 2
    post: _
    """
    _build(_par4(p0, p1, p2, p3, p4))
    try:
        _COLLS[tgt].add(_OBJS[x], override_parent=override)
    except Exception:
        pass
    return _inv()


def _add2(p0: int, p1: int, p2: int, p3: int, p4: int, tgt: int, x: int, y: int, override: bool) -> bool:
    _build(_par4(p0, p1, p2, p3, p4))
    try:
        _COLLS[tgt].add(_OBJS[x], _OBJS[y], override_parent=override)
    except Exception:
        pass
    return _inv()


def _remove(p0: int, p1: int, p2: int, p3: int, p4: int, tgt: int, x: int, y: int, recursive: bool, ignore: bool) -> bool:
    _build(_par4(p0, p1, p2, p3, p4))
    args = [_OBJS[x]] + ([_OBJS[y]] if y >= 0 else [])
    try:
        _COLLS[tgt].remove(*args, recursive=recursive, errors="ignore" if ignore else "raise")
    except Exception:
        pass
    return _inv()


def h_parent(p0: int, p1: int, p2: int, p3: int, p4: int, x: int, newp: int) -> bool:
    """
    pre: _valid(_par4(p0, p1, p2, p3, p4)) and 0 <= x < N and -2 <= newp < NCOLL and -1 <= p4 <= 2
    post: _
    """
    _build(_par4(p0, p1, p2, p3, p4))
    try:
        _OBJS[x].parent = None if newp == -1 else ("bad" if newp == -2 else _COLLS[newp])
    except Exception:
        pass
    return _inv()


def _children(p0: int, p1: int, p2: int, p3: int, p4: int, tgt: int, k: int, x: int, y: int) -> bool:
    _build(_par4(p0, p1, p2, p3, p4))
    new = [_OBJS[x], _OBJS[y]][:k]
    try:
        _COLLS[tgt].children = new
    except Exception:
        pass
    return _inv()


def _typed_setter(p0: int, p1: int, p2: int, p3: int, p4: int, tgt: int, which: int, k: int, x: int, y: int) -> bool:
    _build(_par4(p0, p1, p2, p3, p4))
    new = [_OBJS[x], _OBJS[y]][:k]
    try:
        if which == 0:
            _COLLS[tgt].sources = new
        elif which == 1:
            _COLLS[tgt].sensors = new
        else:
            _COLLS[tgt].collections = new
    except Exception:
        pass
    return _inv()


def _plus(p0: int, p1: int, p2: int, p3: int, p4: int, x: int, y: int) -> bool:
    _build(_par4(p0, p1, p2, p3, p4))
    new = []
    try:
        c = _OBJS[x] + _OBJS[y]
        new = [c]
    except Exception:
        pass
    return _inv(new)


def h_copy(p0: int, p1: int, p2: int, p3: int, p4: int, x: int) -> bool:
    """
    pre: _valid(_par4(p0, p1, p2, p3, p4)) and 0 <= x < N and -1 <= p4 <= 2
    post: _
    """
    par = _par4(p0, p1, p2, p3, p4)
    _build(par)
    try:
        cp = _OBJS[x].copy()
    except Exception:
        return _inv()
    if not _inv():
        return False
    if cp._parent is not None:
        return False
    if isinstance(cp, Collection):
        # the copy's subtree is consistent in itself and shares no object with the original universe
        stack = [cp]
        while stack:
            c = stack.pop()
            for ch in c._children:
                if ch._parent is not c or any(ch is o for o in _OBJS):
                    return False
                if isinstance(ch, Collection):
                    stack.append(ch)
        if len(cp.children_all) != len(_OBJS[x].children_all):
            return False
    # parents of the original objects did not change
    for i, p in enumerate(par):
        if (_OBJS[i]._parent is None) != (p == -1):
            return False
        if p >= 0 and _OBJS[i]._parent is not _OBJS[p]:
            return False
    return True


_BAD_COPY_KW = ({"position": "bad"}, {"orientation": 5}, {"style_notaleaf": 1}, {"parent": "nope"})


def _copy_rejected(p0: int, p1: int, p2: int, p3: int, p4: int, x: int, k: int) -> bool:
    # copy(**kwargs) with a keyword that is rejected: the call raises and the forest is what it was
    par = _par4(p0, p1, p2, p3, p4)
    _build(par)
    try:
        _OBJS[x].copy(**_BAD_COPY_KW[k])
        return False  # must be rejected
    except Exception:
        pass
    if not _inv():
        return False
    for i, p in enumerate(par):
        if (_OBJS[i]._parent is None) != (p == -1):
            return False
        if p >= 0 and _OBJS[i]._parent is not _OBJS[p]:
            return False
    return True


def h_copy_rejected_position(p0: int, p1: int, p2: int, p3: int, p4: int, x: int) -> bool:
    """
    pre: _valid(_par4(p0, p1, p2, p3, p4)) and 0 <= x < N and -1 <= p4 <= 2
    post: _
    """
    return _copy_rejected(p0, p1, p2, p3, p4, x, 0)


def h_copy_rejected_orientation(p0: int, p1: int, p2: int, p3: int, p4: int, x: int) -> bool:
    """
    pre: _valid(_par4(p0, p1, p2, p3, p4)) and 0 <= x < N and -1 <= p4 <= 2
    post: _
    """
    return _copy_rejected(p0, p1, p2, p3, p4, x, 1)


def h_copy_rejected_style(p0: int, p1: int, p2: int, p3: int, p4: int, x: int) -> bool:
    """
    pre: _valid(_par4(p0, p1, p2, p3, p4)) and 0 <= x < N and -1 <= p4 <= 2
    post: _
    """
    return _copy_rejected(p0, p1, p2, p3, p4, x, 2)


def h_copy_rejected_parent(p0: int, p1: int, p2: int, p3: int, p4: int, x: int) -> bool:
    """
    pre: _valid(_par4(p0, p1, p2, p3, p4)) and 0 <= x < N and -1 <= p4 <= 2
    post: _
    """
    return _copy_rejected(p0, p1, p2, p3, p4, x, 3)


def twin_add_moves_child(p0: int, p1: int, p2: int, p3: int, p4: int, tgt: int, x: int) -> bool:
    """
    pre: _valid(_par4(p0, p1, p2, p3, p4)) and 0 <= tgt < NCOLL and 0 <= x < N and -1 <= p4 <= 2
    post: _
    """
    # reachability: some pre-state has x under another parent and add(..., override_parent=True) really re-parents it
    par = _par4(p0, p1, p2, p3, p4)
    _build(par)
    before = _OBJS[x]._parent
    try:
        _COLLS[tgt].add(_OBJS[x], override_parent=True)
    except Exception:
        return True
    return not (before is not None and before is not _COLLS[tgt] and _OBJS[x]._parent is _COLLS[tgt])


def twin_nested_state(p0: int, p1: int, p2: int, p3: int, p4: int) -> bool:
    """
    pre: _valid(_par4(p0, p1, p2, p3, p4)) and -1 <= p4 <= 2
    post: _
    """
    # reachability: valid pre-states include a collection nested in another one that itself holds a leaf
    par = _par4(p0, p1, p2, p3, p4)
    return not (par[1] == 0 and par[NCOLL] == 1)


# ---- generated slices: each fixes some parameters so that CrossHair can confirm it over all paths within the budget

def h_add2_t0_o0(p0: int, p1: int, p2: int, p3: int, p4: int, x: int, y: int) -> bool:
    """
    pre: _valid(_par4(p0, p1, p2, p3, p4)) and -1 <= p4 <= 2 and 0 <= x < N and 0 <= y < N and 0 < NCOLL
    post: _
    """
    return _add2(p0, p1, p2, p3, p4, 0, x, y, False)

def h_add2_t0_o1(p0: int, p1: int, p2: int, p3: int, p4: int, x: int, y: int) -> bool:
    """
    pre: _valid(_par4(p0, p1, p2, p3, p4)) and -1 <= p4 <= 2 and 0 <= x < N and 0 <= y < N and 0 < NCOLL
    post: _
    """
    return _add2(p0, p1, p2, p3, p4, 0, x, y, True)

def h_add2_t1_o0(p0: int, p1: int, p2: int, p3: int, p4: int, x: int, y: int) -> bool:
    """
    pre: _valid(_par4(p0, p1, p2, p3, p4)) and -1 <= p4 <= 2 and 0 <= x < N and 0 <= y < N and 1 < NCOLL
    post: _
    """
    return _add2(p0, p1, p2, p3, p4, 1, x, y, False)

def h_add2_t1_o1(p0: int, p1: int, p2: int, p3: int, p4: int, x: int, y: int) -> bool:
    """
    pre: _valid(_par4(p0, p1, p2, p3, p4)) and -1 <= p4 <= 2 and 0 <= x < N and 0 <= y < N and 1 < NCOLL
    post: _
    """
    return _add2(p0, p1, p2, p3, p4, 1, x, y, True)

def h_remove_t0_r0_i0(p0: int, p1: int, p2: int, p3: int, p4: int, x: int, y: int) -> bool:
    """
    pre: _valid(_par4(p0, p1, p2, p3, p4)) and -1 <= p4 <= 2 and 0 <= x < N and -1 <= y < N and 0 < NCOLL
    post: _
    """
    return _remove(p0, p1, p2, p3, p4, 0, x, y, False, False)

def h_remove_t0_r0_i1(p0: int, p1: int, p2: int, p3: int, p4: int, x: int, y: int) -> bool:
    """
    pre: _valid(_par4(p0, p1, p2, p3, p4)) and -1 <= p4 <= 2 and 0 <= x < N and -1 <= y < N and 0 < NCOLL
    post: _
    """
    return _remove(p0, p1, p2, p3, p4, 0, x, y, False, True)

def h_remove_t0_r1_i0(p0: int, p1: int, p2: int, p3: int, p4: int, x: int, y: int) -> bool:
    """
    pre: _valid(_par4(p0, p1, p2, p3, p4)) and -1 <= p4 <= 2 and 0 <= x < N and -1 <= y < N and 0 < NCOLL
    post: _
    """
    return _remove(p0, p1, p2, p3, p4, 0, x, y, True, False)

def h_remove_t0_r1_i1(p0: int, p1: int, p2: int, p3: int, p4: int, x: int, y: int) -> bool:
    """
    pre: _valid(_par4(p0, p1, p2, p3, p4)) and -1 <= p4 <= 2 and 0 <= x < N and -1 <= y < N and 0 < NCOLL
    post: _
    """
    return _remove(p0, p1, p2, p3, p4, 0, x, y, True, True)

def h_remove_t1_r0_i0(p0: int, p1: int, p2: int, p3: int, p4: int, x: int, y: int) -> bool:
    """
    pre: _valid(_par4(p0, p1, p2, p3, p4)) and -1 <= p4 <= 2 and 0 <= x < N and -1 <= y < N and 1 < NCOLL
    post: _
    """
    return _remove(p0, p1, p2, p3, p4, 1, x, y, False, False)

def h_remove_t1_r0_i1(p0: int, p1: int, p2: int, p3: int, p4: int, x: int, y: int) -> bool:
    """
    pre: _valid(_par4(p0, p1, p2, p3, p4)) and -1 <= p4 <= 2 and 0 <= x < N and -1 <= y < N and 1 < NCOLL
    post: _
    """
    return _remove(p0, p1, p2, p3, p4, 1, x, y, False, True)

def h_remove_t1_r1_i0(p0: int, p1: int, p2: int, p3: int, p4: int, x: int, y: int) -> bool:
    """
    pre: _valid(_par4(p0, p1, p2, p3, p4)) and -1 <= p4 <= 2 and 0 <= x < N and -1 <= y < N and 1 < NCOLL
    post: _
    """
    return _remove(p0, p1, p2, p3, p4, 1, x, y, True, False)

def h_remove_t1_r1_i1(p0: int, p1: int, p2: int, p3: int, p4: int, x: int, y: int) -> bool:
    """
    pre: _valid(_par4(p0, p1, p2, p3, p4)) and -1 <= p4 <= 2 and 0 <= x < N and -1 <= y < N and 1 < NCOLL
    post: _
    """
    return _remove(p0, p1, p2, p3, p4, 1, x, y, True, True)

def h_children_t0_k0(p0: int, p1: int, p2: int, p3: int, p4: int, x: int, y: int) -> bool:
    """
    pre: _valid(_par4(p0, p1, p2, p3, p4)) and -1 <= p4 <= 2 and 0 <= x < N and 0 <= y < N and 0 < NCOLL
    post: _
    """
    return _children(p0, p1, p2, p3, p4, 0, 0, x, y)

def h_children_t0_k1(p0: int, p1: int, p2: int, p3: int, p4: int, x: int, y: int) -> bool:
    """
    pre: _valid(_par4(p0, p1, p2, p3, p4)) and -1 <= p4 <= 2 and 0 <= x < N and 0 <= y < N and 0 < NCOLL
    post: _
    """
    return _children(p0, p1, p2, p3, p4, 0, 1, x, y)

def h_children_t0_k2(p0: int, p1: int, p2: int, p3: int, p4: int, x: int, y: int) -> bool:
    """
    pre: _valid(_par4(p0, p1, p2, p3, p4)) and -1 <= p4 <= 2 and 0 <= x < N and 0 <= y < N and 0 < NCOLL
    post: _
    """
    return _children(p0, p1, p2, p3, p4, 0, 2, x, y)

def h_children_t1_k0(p0: int, p1: int, p2: int, p3: int, p4: int, x: int, y: int) -> bool:
    """
    pre: _valid(_par4(p0, p1, p2, p3, p4)) and -1 <= p4 <= 2 and 0 <= x < N and 0 <= y < N and 1 < NCOLL
    post: _
    """
    return _children(p0, p1, p2, p3, p4, 1, 0, x, y)

def h_children_t1_k1(p0: int, p1: int, p2: int, p3: int, p4: int, x: int, y: int) -> bool:
    """
    pre: _valid(_par4(p0, p1, p2, p3, p4)) and -1 <= p4 <= 2 and 0 <= x < N and 0 <= y < N and 1 < NCOLL
    post: _
    """
    return _children(p0, p1, p2, p3, p4, 1, 1, x, y)

def h_children_t1_k2(p0: int, p1: int, p2: int, p3: int, p4: int, x: int, y: int) -> bool:
    """
    pre: _valid(_par4(p0, p1, p2, p3, p4)) and -1 <= p4 <= 2 and 0 <= x < N and 0 <= y < N and 1 < NCOLL
    post: _
    """
    return _children(p0, p1, p2, p3, p4, 1, 2, x, y)

def h_typed_t0_w0_k0(p0: int, p1: int, p2: int, p3: int, p4: int, x: int, y: int) -> bool:
    """
    pre: _valid(_par4(p0, p1, p2, p3, p4)) and -1 <= p4 <= 2 and 0 <= x < N and 0 <= y < N and 0 < NCOLL
    post: _
    """
    return _typed_setter(p0, p1, p2, p3, p4, 0, 0, 0, x, y)

def h_typed_t0_w0_k1(p0: int, p1: int, p2: int, p3: int, p4: int, x: int, y: int) -> bool:
    """
    pre: _valid(_par4(p0, p1, p2, p3, p4)) and -1 <= p4 <= 2 and 0 <= x < N and 0 <= y < N and 0 < NCOLL
    post: _
    """
    return _typed_setter(p0, p1, p2, p3, p4, 0, 0, 1, x, y)

def h_typed_t0_w0_k2(p0: int, p1: int, p2: int, p3: int, p4: int, x: int, y: int) -> bool:
    """
    pre: _valid(_par4(p0, p1, p2, p3, p4)) and -1 <= p4 <= 2 and 0 <= x < N and 0 <= y < N and 0 < NCOLL
    post: _
    """
    return _typed_setter(p0, p1, p2, p3, p4, 0, 0, 2, x, y)

def h_typed_t0_w1_k0(p0: int, p1: int, p2: int, p3: int, p4: int, x: int, y: int) -> bool:
    """
    pre: _valid(_par4(p0, p1, p2, p3, p4)) and -1 <= p4 <= 2 and 0 <= x < N and 0 <= y < N and 0 < NCOLL
    post: _
    """
    return _typed_setter(p0, p1, p2, p3, p4, 0, 1, 0, x, y)

def h_typed_t0_w1_k1(p0: int, p1: int, p2: int, p3: int, p4: int, x: int, y: int) -> bool:
    """
    pre: _valid(_par4(p0, p1, p2, p3, p4)) and -1 <= p4 <= 2 and 0 <= x < N and 0 <= y < N and 0 < NCOLL
    post: _
    """
    return _typed_setter(p0, p1, p2, p3, p4, 0, 1, 1, x, y)

def h_typed_t0_w1_k2(p0: int, p1: int, p2: int, p3: int, p4: int, x: int, y: int) -> bool:
    """
    pre: _valid(_par4(p0, p1, p2, p3, p4)) and -1 <= p4 <= 2 and 0 <= x < N and 0 <= y < N and 0 < NCOLL
    post: _
    """
    return _typed_setter(p0, p1, p2, p3, p4, 0, 1, 2, x, y)

def h_typed_t0_w2_k0(p0: int, p1: int, p2: int, p3: int, p4: int, x: int, y: int) -> bool:
    """
    pre: _valid(_par4(p0, p1, p2, p3, p4)) and -1 <= p4 <= 2 and 0 <= x < N and 0 <= y < N and 0 < NCOLL
    post: _
    """
    return _typed_setter(p0, p1, p2, p3, p4, 0, 2, 0, x, y)

def h_typed_t0_w2_k1(p0: int, p1: int, p2: int, p3: int, p4: int, x: int, y: int) -> bool:
    """
    pre: _valid(_par4(p0, p1, p2, p3, p4)) and -1 <= p4 <= 2 and 0 <= x < N and 0 <= y < N and 0 < NCOLL
    post: _
    """
    return _typed_setter(p0, p1, p2, p3, p4, 0, 2, 1, x, y)

def h_typed_t0_w2_k2(p0: int, p1: int, p2: int, p3: int, p4: int, x: int, y: int) -> bool:
    """
    pre: _valid(_par4(p0, p1, p2, p3, p4)) and -1 <= p4 <= 2 and 0 <= x < N and 0 <= y < N and 0 < NCOLL
    post: _
    """
    return _typed_setter(p0, p1, p2, p3, p4, 0, 2, 2, x, y)

def h_typed_t1_w0_k0(p0: int, p1: int, p2: int, p3: int, p4: int, x: int, y: int) -> bool:
    """
    pre: _valid(_par4(p0, p1, p2, p3, p4)) and -1 <= p4 <= 2 and 0 <= x < N and 0 <= y < N and 1 < NCOLL
    post: _
    """
    return _typed_setter(p0, p1, p2, p3, p4, 1, 0, 0, x, y)

def h_typed_t1_w0_k1(p0: int, p1: int, p2: int, p3: int, p4: int, x: int, y: int) -> bool:
    """
    pre: _valid(_par4(p0, p1, p2, p3, p4)) and -1 <= p4 <= 2 and 0 <= x < N and 0 <= y < N and 1 < NCOLL
    post: _
    """
    return _typed_setter(p0, p1, p2, p3, p4, 1, 0, 1, x, y)

def h_typed_t1_w0_k2(p0: int, p1: int, p2: int, p3: int, p4: int, x: int, y: int) -> bool:
    """
    pre: _valid(_par4(p0, p1, p2, p3, p4)) and -1 <= p4 <= 2 and 0 <= x < N and 0 <= y < N and 1 < NCOLL
    post: _
    """
    return _typed_setter(p0, p1, p2, p3, p4, 1, 0, 2, x, y)

def h_typed_t1_w1_k0(p0: int, p1: int, p2: int, p3: int, p4: int, x: int, y: int) -> bool:
    """
    pre: _valid(_par4(p0, p1, p2, p3, p4)) and -1 <= p4 <= 2 and 0 <= x < N and 0 <= y < N and 1 < NCOLL
    post: _
    """
    return _typed_setter(p0, p1, p2, p3, p4, 1, 1, 0, x, y)

def h_typed_t1_w1_k1(p0: int, p1: int, p2: int, p3: int, p4: int, x: int, y: int) -> bool:
    """
    pre: _valid(_par4(p0, p1, p2, p3, p4)) and -1 <= p4 <= 2 and 0 <= x < N and 0 <= y < N and 1 < NCOLL
    post: _
    """
    return _typed_setter(p0, p1, p2, p3, p4, 1, 1, 1, x, y)

def h_typed_t1_w1_k2(p0: int, p1: int, p2: int, p3: int, p4: int, x: int, y: int) -> bool:
    """
    pre: _valid(_par4(p0, p1, p2, p3, p4)) and -1 <= p4 <= 2 and 0 <= x < N and 0 <= y < N and 1 < NCOLL
    post: _
    """
    return _typed_setter(p0, p1, p2, p3, p4, 1, 1, 2, x, y)

def h_typed_t1_w2_k0(p0: int, p1: int, p2: int, p3: int, p4: int, x: int, y: int) -> bool:
    """
    pre: _valid(_par4(p0, p1, p2, p3, p4)) and -1 <= p4 <= 2 and 0 <= x < N and 0 <= y < N and 1 < NCOLL
    post: _
    """
    return _typed_setter(p0, p1, p2, p3, p4, 1, 2, 0, x, y)

def h_typed_t1_w2_k1(p0: int, p1: int, p2: int, p3: int, p4: int, x: int, y: int) -> bool:
    """
    pre: _valid(_par4(p0, p1, p2, p3, p4)) and -1 <= p4 <= 2 and 0 <= x < N and 0 <= y < N and 1 < NCOLL
    post: _
    """
    return _typed_setter(p0, p1, p2, p3, p4, 1, 2, 1, x, y)

def h_typed_t1_w2_k2(p0: int, p1: int, p2: int, p3: int, p4: int, x: int, y: int) -> bool:
    """
    pre: _valid(_par4(p0, p1, p2, p3, p4)) and -1 <= p4 <= 2 and 0 <= x < N and 0 <= y < N and 1 < NCOLL
    post: _
    """
    return _typed_setter(p0, p1, p2, p3, p4, 1, 2, 2, x, y)

def h_plus_x0(p0: int, p1: int, p2: int, p3: int, p4: int, y: int) -> bool:
    """
    pre: _valid(_par4(p0, p1, p2, p3, p4)) and -1 <= p4 <= 2 and 0 <= y < N and 0 < N
    post: _
    """
    return _plus(p0, p1, p2, p3, p4, 0, y)

def h_plus_x1(p0: int, p1: int, p2: int, p3: int, p4: int, y: int) -> bool:
    """
    pre: _valid(_par4(p0, p1, p2, p3, p4)) and -1 <= p4 <= 2 and 0 <= y < N and 1 < N
    post: _
    """
    return _plus(p0, p1, p2, p3, p4, 1, y)

def h_plus_x2(p0: int, p1: int, p2: int, p3: int, p4: int, y: int) -> bool:
    """
    pre: _valid(_par4(p0, p1, p2, p3, p4)) and -1 <= p4 <= 2 and 0 <= y < N and 2 < N
    post: _
    """
    return _plus(p0, p1, p2, p3, p4, 2, y)

def h_plus_x3(p0: int, p1: int, p2: int, p3: int, p4: int, y: int) -> bool:
    """
    pre: _valid(_par4(p0, p1, p2, p3, p4)) and -1 <= p4 <= 2 and 0 <= y < N and 3 < N
    post: _
    """
    return _plus(p0, p1, p2, p3, p4, 3, y)

def h_plus_x4(p0: int, p1: int, p2: int, p3: int, p4: int, y: int) -> bool:
    """
    pre: _valid(_par4(p0, p1, p2, p3, p4)) and -1 <= p4 <= 2 and 0 <= y < N and 4 < N
    post: _
    """
    return _plus(p0, p1, p2, p3, p4, 4, y)



# ---------------------------------------------------------------------------- depth 3 (own universe, independent of NCOLL): T > M > L chains
# pre-states: parent(M) in {None,T}, parent(L) in {None,T,M}, parent(sensor) in {None,T,M,L}  (24 valid forests incl. the chain T>M>L;
# forests where L is above M are the same up to renaming).  One operation with every target / argument of the universe.
_DT, _DM, _DL = Collection(), Collection(), Collection()
_DS = Sensor()
_DC = [_DT, _DM, _DL]
_DO = [_DT, _DM, _DL, _DS]


def _dbuild(pm: int, pl: int, ps: int):
    for o in _DO:
        o._parent = None
    for c in _DC:
        c._children = []
        c._sources = []
        c._sensors = []
        c._collections = []
    for o, p in ((_DM, pm), (_DL, pl), (_DS, ps)):
        if p >= 0:
            o._parent = _DC[p]
            _DC[p]._children.append(o)
    for c in _DC:
        c._update_src_and_sens()


def h_deep_add1(pm: int, pl: int, ps: int, tgt: int, x: int, override: bool) -> bool:
    """
    pre: -1 <= pm <= 0 and -1 <= pl <= 1 and -1 <= ps <= 2 and 0 <= tgt <= 2 and 0 <= x <= 3
    post: _
    """
    _dbuild(pm, pl, ps)
    try:
        _DC[tgt].add(_DO[x], override_parent=override)
    except Exception:
        pass
    return _inv_over(_DC, _DO)


def h_deep_parent(pm: int, pl: int, ps: int, x: int, newp: int) -> bool:
    """
    pre: -1 <= pm <= 0 and -1 <= pl <= 1 and -1 <= ps <= 2 and 0 <= x <= 3 and -1 <= newp <= 2
    post: _
    """
    _dbuild(pm, pl, ps)
    try:
        _DO[x].parent = None if newp == -1 else _DC[newp]
    except Exception:
        pass
    return _inv_over(_DC, _DO)


def h_deep_children(pm: int, pl: int, ps: int, tgt: int, x: int, typed: bool) -> bool:
    """
    pre: -1 <= pm <= 0 and -1 <= pl <= 1 and -1 <= ps <= 2 and 0 <= tgt <= 2 and 0 <= x <= 3
    post: _
    """
    _dbuild(pm, pl, ps)
    try:
        if typed:
            _DC[tgt].collections = [_DO[x]]
        else:
            _DC[tgt].children = [_DO[x]]
    except Exception:
        pass
    return _inv_over(_DC, _DO)


def h_deep_remove(pm: int, pl: int, ps: int, tgt: int, x: int, recursive: bool, ignore: bool) -> bool:
    """
    pre: -1 <= pm <= 0 and -1 <= pl <= 1 and -1 <= ps <= 2 and 0 <= tgt <= 2 and 0 <= x <= 3
    post: _
    """
    _dbuild(pm, pl, ps)
    try:
        _DC[tgt].remove(_DO[x], recursive=recursive, errors="ignore" if ignore else "raise")
    except Exception:
        pass
    return _inv_over(_DC, _DO)


def twin_deep_chain(pm: int, pl: int, ps: int) -> bool:
    """
    pre: -1 <= pm <= 0 and -1 <= pl <= 1 and -1 <= ps <= 2
    post: _
    """
    _dbuild(pm, pl, ps)
    return not (_DL._parent is _DM and _DM._parent is _DT and _DS._parent is _DL)
