"""C11: the collection tree stays a consistent forest (E1: CrossHair, inductive step over an arbitrary valid forest)."""
from . import chlib

PROPERTY = "C11"
FILE = "harness/chx_C11.py"
FUNCTIONS = [
    "magpylib._src.obj_classes.class_Collection:BaseCollection.add",
    "magpylib._src.obj_classes.class_Collection:BaseCollection.remove",
    "magpylib._src.obj_classes.class_Collection:BaseCollection.children",
    "magpylib._src.obj_classes.class_Collection:BaseCollection.sources",
    "magpylib._src.obj_classes.class_Collection:BaseCollection.sensors",
    "magpylib._src.obj_classes.class_Collection:BaseCollection.collections",
    "magpylib._src.obj_classes.class_Collection:BaseCollection._update_src_and_sens",
    "magpylib._src.obj_classes.class_BaseGeo:BaseGeo.parent",
    "magpylib._src.obj_classes.class_BaseGeo:BaseGeo.__add__",
    "magpylib._src.obj_classes.class_BaseGeo:BaseGeo.copy",
    "magpylib._src.utility:rec_obj_remover",
    "magpylib._src.input_checks:check_format_input_obj",
]
BOUNDS = [
    "universe: 2 collections + a Sensor + a Dipole (quick), 3 collections + Sensor + Dipole (thorough); arbitrary valid forest over it as pre-state "
    "(symbolic parent indices), ONE operation (inductive step) with <=2 arguments and all flag values",
    "operations: add (1 and 2 arguments, override_parent), remove (1-2 arguments, recursive, errors), parent= (collection / None / invalid), children=, "
    "sources=, sensors=, collections= (0-2 elements), +, copy",
    "depth 3 (both tiers): universe T, M, L collections + a Sensor, the 24 forests with parent(M) in {None,T}, parent(L) in {None,T,M}, parent(sensor) anywhere; "
    "add (1 argument, override_parent), parent=, children= / collections= (1 element), remove (recursive, errors) with every target and argument",
]
CUTS = []
ASSUMPTIONS = ["the invariant used as pre-state validity IS the property (so every pre-state is reachable by add operations from the empty state)",
               "CrossHair 'Confirmed over all paths' within the per-condition timeout"]
NOT_DECIDED = ["argument lists longer than 2, universes with more objects",
               "5-object universe (thorough tier only): most conditions are not confirmed within the budget (explored without a counterexample: bug hunting only); "
               "the third collection is never the *target* of add/remove/setters there (it occurs as argument and in the pre-state)"]


def cases(tier, seed):
    cs = chlib.make_cases(FILE, tier, timeouts=(100, 900))
    small = [dict(c) for c in cs if c["func"] != "h_plus_x4"]  # object index 4 exists only in the 5-object universe
    for c in small:
        c["env"] = {"VF_C11_NCOLL": "2"}
    if tier == "quick":
        return small
    # thorough: the 4-object universe again (longer budget: everything confirms) plus the 5-object universe, where CrossHair explores as far as
    # the budget allows (most conditions end "not confirmed": bug hunting only, listed as inconclusive); the depth-3 conditions do not depend on it
    big = []
    for c in cs:
        if "deep" in c["func"]:
            continue
        c = dict(c, id=c["id"] + "-universe5")
        c["env"] = {"VF_C11_NCOLL": "3"}
        big.append(c)
    for c in small:
        c["timeout"] = 300
        c["budget"] = 300 * 3 + 60
    return small + big


def run_case(case, info):
    return chlib.run_case(case, dict(info, pid=PROPERTY), "harness.chx_C11")


def replay(spec):
    import importlib
    import os

    os.environ["VF_C11_NCOLL"] = spec.get("ncoll", "2")
    import harness.chx_C11 as m

    importlib.reload(m)
    return chlib.replay_call(spec)
