"""C16  check_selfintersecting reports a self-intersecting mesh exactly when it is (two-part meshes with a symbolic
interpenetration depth), and after the default face reorientation of a closed mesh all faces point outwards - for every face order, winding and size.

fix_trimesh_orientation -> get_inwards_mask -> is_facet_inwards -> mask_inside_trimesh -> lines_end_in_trimesh are executed
symbolically for meshes V = s*V0 + t with V0 from a committed list of rational base meshes, s in [1e-9,1e9] and t in R^3
symbolic, over face orders and flip subsets.  The returned face list is concrete per path, so "every face normal points away
from the interior" is checked exactly on the base mesh; the solver decides which paths are feasible (i.e. for which sizes /
placements the fixed tolerances of the ray casting change the outcome).
"""
import itertools

import numpy as np
import z3

from symnum import CTX, S, oarr, symarr, sym, toz, explore
from .common import Case, rel_close

PROPERTY = "C16"
FUNCTIONS = [
    "magpylib._src.fields.field_BH_triangularmesh:fix_trimesh_orientation",
    "magpylib._src.fields.field_BH_triangularmesh:get_inwards_mask",
    "magpylib._src.fields.field_BH_triangularmesh:is_facet_inwards",
    "magpylib._src.fields.field_BH_triangularmesh:mask_inside_trimesh",
    "magpylib._src.fields.field_BH_triangularmesh:mask_inside_enclosing_box",
    "magpylib._src.fields.field_BH_triangularmesh:lines_end_in_trimesh",
    "magpylib._src.fields.field_BH_triangularmesh:get_intersecting_triangles",
    "magpylib._src.fields.field_BH_triangularmesh:segments_intersect_facets",
    "magpylib._src.fields.field_BH_triangularmesh:get_open_edges",
    "magpylib._src.fields.field_BH_triangularmesh:get_disconnected_faces_subsets",
]
BOUNDS = [
    "base meshes: regular-ish tetrahedron, sliver tetrahedron, triangular prism (8 faces), cube (12 faces), two disjoint tetrahedra with interleaved faces; "
    "vertices V = s*V0 + t with s in [1e-9,1e9], t in R^3 symbolic",
    "tetrahedra: all 16 flip subsets x face orders from a committed list (quick: 2 orders, thorough: 8 of the 24); sliver: quick 2, thorough 5 flip subsets; prism / cube: all single "
    "flips and the all-flipped mesh, 2 face orders (quick: 3 flip subsets, 1 order)",
    "self-intersection: (a) thin spike B (apex c+d*(1,1,1) on the axis through the centroid c of the slanted face of tetrahedron A=4*unit, base 1 further out), "
    "d in [-1.3,1] symbolic, truth -1<d<0; (a') a short thin spike through the same face next to its corner, far from the face centroid, d in [-0.25,0.2]; "
    "(c) ridge over ridge (exactly two piercing edges), d in [-1,1], truth d<0, with the ridge in edge slot 0 / 1 / 2 of every face that contains it; "
    "(b) B = A shifted by d along x, d in [-5,5], truth 0<|d|<4; touching configurations excluded by bands of 1e-5 "
    "(the code's point tolerance eps is 1e-6); face orders B-first, A-first, interleaved (thorough: + reversed interleaved, one flipped face)",
]
BOUNDS.append(
    "status cases: get_open_edges / get_disconnected_faces_subsets on faces = L[F0] with F0 from a committed list of topologies (closed / one or two faces deleted / "
    "dangling fin / two parts / two parts sharing one vertex / triangle strip) in committed face orders, vertex numbers L_0..L_{V-1} symbolic pairwise distinct reals "
    "(every permutation and every other injective numbering; at most 4 of them free in the order, the others increasing - stated cut on the number of paths); "
    "truth (boundary edges, vertex-connected components) from a reference written in the harness on the base numbering")
CUTS = ["self-intersection cases only: scipy.spatial.KDTree (compiled) is replaced by a stub that implements query_ball_point by its definition "
        "(|c_j - p_i| <= r, each comparison a solver-decided branch), so the search radius computed by the code is part of what is checked",
        "vertices.astype(float32) is the identity (real arithmetic)"]
ASSUMPTIONS = ["real arithmetic", "the base meshes are closed and connected (status checks are not the subject here)"]
NOT_DECIDED = ["check_open / check_disconnected beyond the committed topologies of the status cases (the class-level caching of the status flags is covered by the concrete trace only)", "check_selfintersecting beyond the three committed two-part families (spike through the middle / next to a corner of a face; two equal tetrahedra shifted along x)",
               "vertex renumbering (the algorithm only sees vertices[faces])"]

S_LO, S_HI = z3.RealVal("1/1000000000"), z3.RealVal(1000000000)

TETRA = (np.array([(0, 0, 0), (1, 0, 0), (0, 1, 0), (0, 0, 1)], dtype=float), [(0, 2, 1), (0, 1, 3), (1, 2, 3), (0, 3, 2)])
SLIVER = (np.array([(1, 2, -1), (3, 2, -1), (2, 5, -1), (2, 3, -0.75)], dtype=float), [(0, 2, 1), (0, 1, 3), (1, 2, 3), (0, 3, 2)])
PRISM = (np.array([(0, 0, 0), (2, 0, 0), (0, 1, 0), (0, 0, 3), (2, 0, 3), (0, 1, 3)], dtype=float),
         [(0, 2, 1), (3, 4, 5), (0, 1, 4), (0, 4, 3), (1, 2, 5), (1, 5, 4), (2, 0, 3), (2, 3, 5)])
CUBE_V = np.array([(x, y, z) for x in (0, 1) for y in (0, 1) for z in (0, 1)], dtype=float)
CUBE = (CUBE_V, [(0, 1, 3), (0, 3, 2), (4, 6, 7), (4, 7, 5), (0, 4, 5), (0, 5, 1), (2, 3, 7), (2, 7, 6), (0, 2, 6), (0, 6, 4), (1, 5, 7), (1, 7, 3)])
# two disjoint tetrahedra in one mesh; the face orders below interleave the faces of the two parts
TWO_V = np.concatenate([TETRA[0], TETRA[0] * 2 + np.array([5.0, 1.0, 0.0])])
TWO = (TWO_V, list(TETRA[1]) + [tuple(i + 4 for i in f) for f in TETRA[1]])
BASES = {"tetra": TETRA, "sliver": SLIVER, "prism": PRISM, "cube": CUBE, "two-tetra": TWO}
PART_OF = {"two-tetra": lambda vi: 0 if vi < 4 else 1}


def _outward(V0, face, base=None):
    """is the face (vertex index triple) oriented outwards on the base mesh? (exact: centroid of the convex part it belongs to is interior)"""
    if base in PART_OF:
        part = PART_OF[base](face[0])
        c = V0[[i for i in range(len(V0)) if PART_OF[base](i) == part]].mean(axis=0)
    else:
        c = V0.mean(axis=0)
    a, b, d = V0[face[0]], V0[face[1]], V0[face[2]]
    n = np.cross(b - a, d - a)
    return float(np.dot(n, a - c)) > 0


def _check_base():
    for nm, (V0, F) in BASES.items():
        assert all(_outward(V0, f, nm) for f in F), nm


def cases(tier, seed):
    _check_base()
    out = []
    orders4 = list(itertools.permutations(range(4)))
    sel = [orders4[0], orders4[14]] if tier == "quick" else orders4[::3]  # thorough: 8 of the 24 face orders (all 24 took > 3 h on 16 cores)
    for base in ("tetra", "sliver"):
        for oi, order in enumerate(sel):
            for flips in range(16):
                if tier == "quick" and base == "sliver" and (flips not in (1, 15) or oi > 0):
                    continue
                if tier != "quick" and base == "sliver" and flips not in (0, 1, 5, 10, 15):
                    continue
                out.append({"id": f"{base}-order{oi}-flips{flips:04b}", "base": base, "order": list(order), "flips": [i for i in range(4) if flips >> i & 1], "weight": 2})
    # disjoint parts with interleaved faces: orders [A0,B0,A1,B1,...] and [B3,A3,B2,...]; flipped faces in both parts
    inter = [0, 4, 1, 5, 2, 6, 3, 7]
    for oi, order in enumerate([inter, inter[::-1]]):
        for fs in ([], [0], [2, 5], [1, 3, 4, 6], list(range(8))):
            if tier == "quick" and (oi > 0 or fs not in ([], [2, 5], [1, 3, 4, 6])):
                continue
            out.append({"id": f"two-tetra-order{oi}-flips{'_'.join(map(str, fs)) or 'none'}", "base": "two-tetra", "order": order, "flips": fs, "weight": 6})
    for geom in ("spike", "shifted", "spike-corner"):
        for order in SI_ORDERS:
            for fl in ([], [1]):
                if fl and order != "Bfirst":
                    continue
                if tier == "quick" and (order in ("interleaved-rev", "Afirst" if geom == "spike" else "interleaved") or fl):
                    continue
                if tier == "quick" and (geom == "spike" or (geom == "spike-corner" and order != "Bfirst")):
                    continue  # quick: the off-centre spike (B first) covers one-directional piercing; the centred spike family is thorough-tier
                out.append({"id": f"selfintersect-{geom}-{order}" + ("-flip1" if fl else ""), "kind": "selfintersect", "geom": geom, "order": order, "flips": fl, "weight": 9,
                            "budget": 700 if tier == "quick" else 3000})
    for slot in (0, 1, 2):
        out.append({"id": f"selfintersect-ridge-slot{slot}", "kind": "selfintersect", "geom": "ridge", "order": "Bfirst", "slot": slot, "flips": [], "weight": 9,
                    "budget": 700 if tier == "quick" else 3000})
    for topo, (V0, F0, free, orders) in STATUS_TOPOS.items():
        for oi, order in enumerate(orders):
            if tier == "quick" and oi > 1:
                continue
            out.append({"id": f"status-{topo}-order{oi}", "kind": "status", "topo": topo, "order": list(order), "free": free if tier == "quick" else min(len(V0), free + 1),
                        "weight": 3, "budget": 300 if tier == "quick" else 1500})
    for base in ("prism", "cube"):
        nf = len(BASES[base][1])
        orders = [list(range(nf)), list(range(nf))[::-1]]
        for oi, order in enumerate(orders):
            flipsets = [[]] + [[i] for i in range(nf)] + [list(range(nf))]
            if tier == "quick":
                if oi > 0:
                    continue
                flipsets = [[0], [1, 2], list(range(nf))]
            for fs in flipsets:
                out.append({"id": f"{base}-order{oi}-flips{'_'.join(map(str, fs)) or 'none'}", "base": base, "order": order, "flips": fs, "weight": 6})
    return out


# ---------------------------------------------------------------------------- self-intersection families
A4 = TETRA[0] * 4.0
BAND = z3.RealVal("1/100000")


def _band(e):
    return z3.Or(e >= BAND, e <= -BAND)


def _si_geometry(kind, d):
    """-> (V (8,3) object array with A first, preconditions on d, truth formula 'the surfaces of A and B intersect')"""
    from symnum.arr import SymArray

    V = np.empty((8, 3), dtype=object)
    for i in range(4):
        for k in range(3):
            V[i, k] = S(toz(A4[i, k]))
    if kind == "ridge":
        for i in range(8):
            for k in range(3):
                V[i, k] = S(toz(RIDGE_V[i, k])) + (d if (i >= 4 and k == 2) else 0)
        return V.view(SymArray), [d.z >= -1, d.z <= 1, _band(d.z)], d.z < 0
    if kind == "spike":
        third = S(z3.RealVal("4/3"))
        U = np.array([(1, -1, 0), (0, 1, -1), (-1, 0, 1)], dtype=float) * 0.25
        for k in range(3):
            V[4, k] = third + d
            for j in range(3):
                V[5 + j, k] = third + d + 1 + S(toz(U[j, k]))
        pre = [d.z >= z3.RealVal("-13/10"), d.z <= 1, _band(d.z), _band(d.z + 1)]
        truth = z3.And(d.z > -1, d.z < 0)
    elif kind == "spike-corner":
        # a short thin spike through the slanted face next to its corner (4,0,0), far from the centroid of that large face: the pair
        # (large face, small spike triangle) is a candidate only if the search radius follows the LARGEST triangle
        P0 = SPIKE_CORNER_P0
        U = np.array([(1, -1, 0), (0, 1, -1), (-1, 0, 1)], dtype=float) * SPIKE_CORNER_W
        for k in range(3):
            V[4, k] = S(toz(P0[k])) + d
            for j in range(3):
                V[5 + j, k] = S(toz(P0[k])) + d + S(toz(SPIKE_CORNER_LEN)) + S(toz(U[j, k]))
        L = z3.RealVal(str(SPIKE_CORNER_LEN))
        pre = [d.z >= z3.RealVal("-1/4"), d.z <= z3.RealVal("1/5"), _band(d.z), _band(d.z + L)]
        truth = z3.And(d.z > -L, d.z < 0)
    else:  # shifted copy
        for i in range(4):
            for k in range(3):
                V[4 + i, k] = S(toz(A4[i, k])) + (d if k == 0 else 0)
        pre = [d.z >= -5, d.z <= 5, _band(d.z), _band(d.z - 4), _band(d.z + 4)]
        truth = z3.And(d.z != 0, d.z > -4, d.z < 4)
    return V.view(SymArray), pre, truth


SPIKE_CORNER_P0 = (3.375, 0.3125, 0.3125)  # on the plane x+y+z=4, exact in binary
SPIKE_CORNER_LEN = 0.1875
SPIKE_CORNER_W = 0.03125


def _si_geometry_float(kind, dv):
    if kind == "ridge":
        V = RIDGE_V.copy()
        V[4:, 2] += dv
        return V, dv < 0
    V = np.zeros((8, 3))
    V[:4] = A4
    if kind == "spike-corner":
        U = np.array([(1, -1, 0), (0, 1, -1), (-1, 0, 1)], dtype=float) * SPIKE_CORNER_W
        V[4] = np.array(SPIKE_CORNER_P0) + dv
        V[5:] = np.array(SPIKE_CORNER_P0) + dv + SPIKE_CORNER_LEN + U
        return V, (-SPIKE_CORNER_LEN < dv < 0)
    if kind == "spike":
        U = np.array([(1, -1, 0), (0, 1, -1), (-1, 0, 1)], dtype=float) * 0.25
        V[4] = 4 / 3 + dv
        V[5:] = 4 / 3 + dv + 1 + U
        return V, (-1 < dv < 0)
    V[4:] = A4 + np.array([dv, 0, 0])
    return V, (dv != 0 and -4 < dv < 4)


F_A = [list(f) for f in TETRA[1]]
F_B = [[i + 4 for i in f] for f in TETRA[1]]
SI_ORDERS = {"Bfirst": F_B + F_A, "Afirst": F_A + F_B, "interleaved": [f for ab in zip(F_A, F_B) for f in ab],
             "interleaved-rev": [f for ab in zip(F_B[::-1], F_A[::-1]) for f in ab]}


# ridge over ridge: A has its ridge a0-a1 along x at z=0 (body below), B its ridge b0-b1 along y at z=d (body above); for d<0 each ridge pierces the two
# faces of the other body that meet in its ridge - exactly two piercing edges.  slot k: the vertex order of the four faces that contain a ridge puts the
# ridge into edge slot k (0: v0-v1, 1: v1-v2, 2: v2-v0) of every one of them (the order of the vertices inside a face must not matter)
RIDGE_V = np.array([(-2, 0, 0), (2, 0, 0), (0, -2, -3), (0, 2, -3), (0, -2, 0), (0, 2, 0), (-2, 0, 3), (2, 0, 3)], dtype=float)  # B at d=0


def _ridge_faces(slot):
    def rot(r0, r1, o):  # face with ridge (r0, r1) and third vertex o, ridge in the requested slot
        return {0: [r0, r1, o], 1: [o, r0, r1], 2: [r0, o, r1]}[slot]

    fa = [rot(0, 1, 2), rot(0, 1, 3), [0, 2, 3], [1, 3, 2]]
    fb = [rot(4, 5, 6), rot(4, 5, 7), [4, 6, 7], [5, 7, 6]]
    return fb + fa


def _si_faces(case):
    if case.get("geom") == "ridge":
        return np.array(_ridge_faces(case["slot"]), dtype=int)
    faces = [list(f) for f in SI_ORDERS[case["order"]]]
    for k in case.get("flips", []):
        faces[k] = [faces[k][0], faces[k][2], faces[k][1]]
    return np.array(faces, dtype=int)


class _BallTree:
    """stands in for scipy.spatial.KDTree (compiled): query_ball_point by its definition - the indices j with |c_j - p_i| <= r - with every
    comparison decided by the solver like any other branch of the code under test"""

    def __init__(self, centers, *a, **k):
        self.c = np.asarray(centers, dtype=object)

    def query_ball_point(self, pts, r, **k):
        pts = np.asarray(pts, dtype=object)
        r = r if isinstance(r, S) else S(toz(r))
        r2 = r * r
        out = []
        for p in pts:
            idx = []
            for j, c in enumerate(self.c):
                diff = [S(z3.simplify((p[k] - c[k]).z)) for k in range(3)]  # the translation cancels for two triangles of the same part
                d2 = diff[0] * diff[0] + diff[1] * diff[1] + diff[2] * diff[2]
                if bool(d2 <= r2):
                    idx.append(j)
            out.append(np.array(idx, dtype=int))
        return out


def _run_selfintersect(case, info):
    import types

    from symnum import install
    from magpylib._src.fields import field_BH_triangularmesh as TM

    C = Case(case, info)
    CTX.decide_timeout = 8000  # an undecided branch is explored as feasible: spurious paths cost far more than a patient decision
    install.patch("magpylib._src.fields.field_BH_triangularmesh", "scipy", types.SimpleNamespace(spatial=types.SimpleNamespace(KDTree=_BallTree)))
    d = sym("d")
    V, pre, truth = _si_geometry(case["geom"], d)
    CTX.pre = list(pre)
    faces = _si_faces(case)
    rp = {"kind": "selfintersect", "geom": case["geom"], "order": case["order"], "flips": case.get("flips", []), "slot": case.get("slot")}

    def run():
        try:
            return TM.get_intersecting_triangles(V, faces.copy())
        except Exception as e:  # noqa
            return e

    def on_path(p):
        C.paths += 1
        if p.status != "ok":
            C.note_inconclusive(f"p{C.paths}", f"aborted: {p.out}")
            return
        if isinstance(p.out, Exception):
            C.oblige(f"p{C.paths}.raise-witness", p.pc, z3.BoolVal(True), inputs=[d], key="C16|get_intersecting_triangles|raises",
                     on_model=lambda env: {"key": "C16|get_intersecting_triangles|raises", "replay": dict(rp, env=env)})
            return
        reported = len(np.asarray(p.out)) > 0
        neg = z3.Not(truth) if reported else truth
        C.oblige(f"p{C.paths}.reported[{reported}]==intersecting", p.pc, neg, inputs=[d], key=f"C16|get_intersecting_triangles|{'false-positive' if reported else 'missed'}",
                 on_model=lambda env: {"key": f"C16|get_intersecting_triangles|{'false-positive' if reported else 'missed'}", "replay": dict(rp, env=env)})
        if len(C.samples) < 2:
            C.samples.append({"case": case["id"], "what": f"path reporting intersecting triangles {np.asarray(p.out).tolist()}: feasible only for d with truth={reported}"})

    seeds = {"spike": [{"d": -0.5}, {"d": 0.5}, {"d": -1.2}], "spike-corner": [{"d": -0.125}, {"d": 0.125}, {"d": -0.21875}],
             "shifted": [{"d": 1.0}, {"d": -2.5}, {"d": 4.5}, {"d": -4.5}], "ridge": [{"d": -0.5}, {"d": 0.5}]}[case["geom"]]
    C.try_envs = seeds
    paths = explore(run, max_paths=60 if C.tier == "quick" else 400, on_path=on_path, seeds=seeds)
    C.decisions += sum(len(p.decisions) for p in paths)
    if explore.truncated:
        C.note_inconclusive("path-budget", "path budget hit")
    return C.result()


def _replay_selfintersect(spec):
    import warnings

    import magpylib as m

    dv = float((spec.get("env") or {}).get("d") or 0.0)
    V, truth = _si_geometry_float(spec["geom"], dv)
    faces = _si_faces(spec)
    with warnings.catch_warnings():
        warnings.simplefilter("ignore")
        try:
            tm = m.magnet.TriangularMesh(vertices=V, faces=faces, polarization=(0, 0, 1), reorient_faces=False,
                                         check_open="ignore", check_disconnected="ignore", check_selfintersecting="ignore")
            tm.check_selfintersecting(mode="ignore")
            got = bool(tm.status_selfintersecting)
        except Exception as e:  # noqa
            return True, f"TriangularMesh / check_selfintersecting raised {type(e).__name__}: {e}"
    return got != truth, (f"two-part mesh '{spec['geom']}' with d={dv!r}, face order {spec['order']}, flipped {spec.get('flips', [])}: "
                          f"status_selfintersecting={got}, but the parts {'do' if truth else 'do not'} intersect")


# ---------------------------------------------------------------------------- open / disconnected status (symbolic vertex numbering)
def _strip(n):
    return [(i, i + 1, i + 2) for i in range(n)]


_T = list(TETRA[1])
_T2 = list(TWO[1])
_FIN_V = np.concatenate([TETRA[0], [[0.5, -1.0, 0.0]]])
_BOW_V = np.concatenate([TETRA[0], TETRA[0][1:] * 0.5 + np.array([0.0, 0.0, 1.0])])  # second tetrahedron on top, sharing vertex 3 = (0,0,1)
_BOW = _T + [tuple({0: 3, 1: 4, 2: 5, 3: 6}[i] for i in f) for f in _T]
_STRIP_V = np.array([(i * 0.5, float(i % 2), 0.1 * i * i) for i in range(8)])
# topology -> (vertex coordinates for the replay through the class, faces, free labels in the quick tier, face orders)
STATUS_TOPOS = {
    "tetra-closed": (TETRA[0], _T, 4, [range(4), (2, 0, 3, 1)]),
    "tetra-minus1": (TETRA[0], [_T[0], _T[1], _T[3]], 4, [range(3), (2, 1, 0)]),
    "tetra-fin": (_FIN_V, _T + [(0, 1, 4)], 3, [range(5), (4, 0, 1, 2, 3)]),
    "prism-closed": (PRISM[0], list(PRISM[1]), 3, [range(8), (7, 3, 5, 1, 6, 2, 4, 0)]),
    "prism-minus2": (PRISM[0], [f for i, f in enumerate(PRISM[1]) if i not in (0, 5)], 3, [range(6), (5, 2, 4, 0, 3, 1)]),
    "two-tetra-closed": (TWO_V, _T2, 2, [range(8), (0, 4, 1, 5, 2, 6, 3, 7), (7, 3, 6, 2, 5, 1, 4, 0)]),
    "two-tetra-minus1": (TWO_V, _T2[:6] + _T2[7:], 2, [range(7), (6, 0, 5, 1, 4, 2, 3)]),
    "bowtie": (_BOW_V, _BOW, 2, [range(8), (0, 7, 1, 6, 2, 5, 3, 4)]),
    # a strip whose faces are listed so that the region growing of the first part needs several sweeps over the remaining faces
    "strip6": (_STRIP_V, _strip(6), 2, [(0, 5, 4, 3, 2, 1), (5, 0, 1, 2, 3, 4), (2, 5, 0, 4, 1, 3)]),
    "strip3+strip2": (np.concatenate([_STRIP_V[:5], _STRIP_V[:4] + np.array([0.0, 5.0, 0.0])]), _strip(3) + [(5, 6, 7), (6, 7, 8)], 2,
                      [(0, 3, 2, 4, 1), (4, 2, 0, 3, 1), (3, 0, 4, 2, 1)]),
}


def _status_truth(F):
    """reference on the base numbering: boundary edges (used by exactly one face), edges not used exactly twice, vertex-connected components of the faces"""
    cnt = {}
    for f in F:
        for a, b in ((f[0], f[1]), (f[1], f[2]), (f[0], f[2])):
            e = frozenset((a, b))
            cnt[e] = cnt.get(e, 0) + 1
    boundary = {e for e, c in cnt.items() if c == 1}
    not2 = {e for e, c in cnt.items() if c != 2}
    parent = list(range(len(F)))

    def find(i):
        while parent[i] != i:
            i = parent[i]
        return i

    for i in range(len(F)):
        for j in range(i):
            if set(F[i]) & set(F[j]):
                parent[find(i)] = find(j)
    comps = {}
    for i in range(len(F)):
        comps.setdefault(find(i), set()).add(frozenset(F[i]))
    return boundary, not2, {frozenset(c) for c in comps.values()}


def _status_faces(spec):
    V0, F0, _, _ = STATUS_TOPOS[spec["topo"]]
    return np.asarray(V0, dtype=float), [tuple(F0[i]) for i in spec["order"]]


def _run_status(case, info):
    from magpylib._src.fields import field_BH_triangularmesh as TM

    class SL(S):  # a vertex number: hashable (constant hash), so that Python sets of numbers compare by the solver-decided ==
        __slots__ = ()

        def __hash__(self):
            return 7

    C = Case(case, info)
    CTX.decide_timeout = 4000
    V0, F = _status_faces(case)
    nv = len(V0)
    L = [SL(z3.Real(f"L_{i}")) for i in range(nv)]
    base_of = {l.z.get_id(): i for i, l in enumerate(L)}
    free = case["free"]
    CTX.pre = [z3.Distinct(*[l.z for l in L])] + [L[i].z < L[i + 1].z for i in range(free, nv - 1)]
    inputs = L
    boundary, not2, comps = _status_truth(F)
    rp = {"kind": "status", "topo": case["topo"], "order": case["order"]}

    def faces_arr():
        a = np.empty((len(F), 3), dtype=object)
        for i, f in enumerate(F):
            for j, v in enumerate(f):
                a[i, j] = L[v]
        return a.view(type(symarr("tmp", (1,))))

    def back(x):
        return base_of[x.z.get_id()]

    def run():
        try:
            oe = TM.get_open_edges(faces_arr())
            sub = TM.get_disconnected_faces_subsets(faces_arr())
            return ({frozenset(back(x) for x in row) for row in np.asarray(oe)}, len(oe),
                    [frozenset(frozenset(back(x) for x in row) for row in np.asarray(part)) for part in sub])
        except Exception as e:  # noqa
            return e

    def on_path(p):
        C.paths += 1
        if p.status != "ok":
            C.note_inconclusive(f"p{C.paths}", f"aborted: {p.out}")
            return
        if isinstance(p.out, Exception):
            what = f"raised {type(p.out).__name__}: {p.out}"
        else:
            edges, n_edges, parts = p.out
            what = None
            if (n_edges > 0) != bool(boundary):
                what = f"open edges reported: {n_edges}, boundary edges of the mesh: {len(boundary)}"
            elif not (boundary <= edges <= not2) or n_edges != len(edges):
                what = f"open edges {sorted(map(sorted, edges))} (rows: {n_edges}) vs boundary edges {sorted(map(sorted, boundary))}"
            elif len(parts) != len(comps) or set(parts) != comps:
                what = f"{len(parts)} parts with {sorted(len(q) for q in parts)} faces, mesh has {len(comps)} with {sorted(len(q) for q in comps)}"
        if what is None:
            C.obligations.append({"name": f"p{C.paths}.status", "status": "unsat", "witness": C.witness(p.pc),
                                  "note": "on this path (an order of the symbolic vertex numbers) open edges and parts equal the reference"})
            if len(C.samples) < 1:
                C.samples.append({"case": case["id"], "what": f"get_open_edges / get_disconnected_faces_subsets on symbolically numbered faces: {len(boundary)} boundary edges, {len(comps)} part(s) on every feasible path"})
            return
        C.oblige(f"p{C.paths}.status[{what}]", p.pc, z3.BoolVal(True), inputs=inputs, key="C16|status|open-or-disconnected", nice=False,
                 on_model=lambda env: {"key": "C16|status|open-or-disconnected", "replay": dict(rp, env=env)})

    seeds = [{f"L_{i}": float(i) for i in range(nv)}, {f"L_{i}": float((i * 5 + 3) % 11 if i < free else 20 + i) for i in range(nv)}]
    paths = explore(run, max_paths=130 if C.tier == "quick" else 800, on_path=on_path, seeds=seeds)
    C.decisions += sum(len(p.decisions) for p in paths)
    if explore.truncated:
        C.note_inconclusive("path-budget", "path budget hit")
    # the same mesh through the class (check_open / check_disconnected, status flags, data) with the identity numbering: real run, float64 / int arrays
    C.concrete_trace(_replay_status, dict(rp, env=None), "C16|status|open-or-disconnected|concrete")
    return C.result()


def _replay_status(spec):
    import warnings

    import magpylib as m

    V0, F = _status_faces(spec)
    env = spec.get("env") or {}
    vals = [float(env.get(f"L_{i}") if env.get(f"L_{i}") is not None else i) for i in range(len(V0))]
    rank = {i: r for r, i in enumerate(sorted(range(len(V0)), key=lambda i: (vals[i], i)))}
    V = np.zeros_like(V0)
    for i, r in rank.items():
        V[r] = V0[i]
    faces = np.array([[rank[v] for v in f] for f in F], dtype=int)
    boundary, not2, comps = _status_truth([tuple(f) for f in faces.tolist()])
    msgs = []
    with warnings.catch_warnings():
        warnings.simplefilter("ignore")
        try:
            tm = m.magnet.TriangularMesh(vertices=V, faces=faces, polarization=(0, 0, 1), reorient_faces=False,
                                         check_open="skip", check_disconnected="skip", check_selfintersecting="skip")
            if tm.status_open is not None or tm.status_disconnected is not None:
                msgs.append("status flags set although the checks were skipped")
            got_dis = tm.check_disconnected(mode="ignore")
            got_open = tm.check_open(mode="ignore")
            if bool(got_open) != bool(boundary) or tm.status_open is not bool(got_open):
                msgs.append(f"check_open -> {got_open} (status_open {tm.status_open}), mesh has {len(boundary)} boundary edges")
            if bool(got_dis) != (len(comps) > 1) or tm.status_disconnected is not bool(got_dis):
                msgs.append(f"check_disconnected -> {got_dis} (status_disconnected {tm.status_disconnected}), mesh has {len(comps)} part(s)")
            edges = {frozenset(int(x) for x in e) for e in np.asarray(tm.status_open_data)}
            if not boundary <= edges <= not2:
                msgs.append(f"status_open_data {sorted(map(sorted, edges))} vs boundary edges {sorted(map(sorted, boundary))}")
            parts = {frozenset(frozenset(int(x) for x in f) for f in np.asarray(q)) for q in tm.status_disconnected_data}
            if parts != comps:
                msgs.append(f"status_disconnected_data has {len(parts)} parts, mesh has {len(comps)}")
            # a second object built with the checks on must agree (flags computed in the constructor)
            tm2 = m.magnet.TriangularMesh(vertices=V, faces=faces, polarization=(0, 0, 1), reorient_faces=False,
                                          check_open="ignore", check_disconnected="ignore", check_selfintersecting="skip")
            if bool(tm2.status_open) != bool(boundary) or bool(tm2.status_disconnected) != (len(comps) > 1):
                msgs.append(f"constructor: status_open {tm2.status_open}, status_disconnected {tm2.status_disconnected}")
        except Exception as e:  # noqa
            return True, f"TriangularMesh status checks raised {type(e).__name__}: {e}"
    return bool(msgs), f"topology {spec['topo']} face order {list(spec['order'])} vertex numbering {faces.tolist()}: " + ("; ".join(msgs) or "status checks agree with the reference")


def _faces(case):
    V0, F = BASES[case["base"]]
    faces = [list(F[i]) for i in case["order"]]
    for k in case["flips"]:
        faces[k] = [faces[k][0], faces[k][2], faces[k][1]]
    return V0, np.array(faces, dtype=int)


def run_case(case, info):
    from magpylib._src.fields import field_BH_triangularmesh as TM

    if case.get("kind") == "selfintersect":
        return _run_selfintersect(case, info)
    if case.get("kind") == "status":
        return _run_status(case, info)
    C = Case(case, info)
    CTX.decide_timeout = 2000  # `unknown` feasibility is treated as feasible anyway; the ray-cast conditions are sqrt-heavy
    # bounding-box min / max over s*v_i + t: the order of the vertices is implied by s > 0, so the if-then-else towers collapse to one branch
    CTX.resolve_minmax = True
    V0, faces = _faces(case)
    s = sym("s")
    t = symarr("t", (3,))
    CTX.pre = [s.z >= S_LO, s.z <= S_HI]
    inputs = [s] + list(t)

    def run():
        V = oarr(V0) * s + t
        try:
            return TM.fix_trimesh_orientation(V, faces.copy())
        except Exception as e:  # noqa
            return e

    def on_path(p):
        C.paths += 1
        if p.status != "ok":
            C.note_inconclusive(f"p{C.paths}", f"aborted: {p.out}")
            return
        rp = {"kind": "orient", "base": case["base"], "order": case["order"], "flips": case["flips"]}
        if isinstance(p.out, Exception):
            C.obligations.append({"name": f"p{C.paths}.returns", "status": "sat", "note": f"raised {type(p.out).__name__}: {p.out}"})
            C.oblige(f"p{C.paths}.raise-witness", p.pc, z3.BoolVal(True), inputs=inputs, on_model=lambda env: {"key": f"C16|fix_trimesh_orientation|raises", "replay": dict(rp, env=env)})
            return
        new_faces = np.asarray(p.out, dtype=int)
        bad = [i for i, f in enumerate(new_faces) if not _outward(V0, f, case["base"])]
        if not bad:
            C.obligations.append({"name": f"p{C.paths}.all-outward", "status": "unsat", "witness": C.witness(p.pc),
                                  "note": "on this path every returned face is oriented outwards (exact check on the base mesh)"})
            if len(C.samples) < 2:
                C.samples.append({"case": case["id"], "what": f"fix_trimesh_orientation(s*V0+t, faces) returns only outward faces on a feasible path; faces in: {faces.tolist()}"})
            return
        # a path that returns inward faces: is it feasible (for which s, t)?
        C.oblige(f"p{C.paths}.all-outward[faces {bad} inward]", p.pc, z3.BoolVal(True), inputs=inputs, key="C16|fix_trimesh_orientation|inward-faces",
                 on_model=lambda env: {"key": "C16|fix_trimesh_orientation|inward-faces", "replay": dict(rp, env=env)})

    seeds = [{"s": 1.0, "t_0": 0.0, "t_1": 0.0, "t_2": 0.0}, {"s": 0.125, "t_0": 3.0, "t_1": -2.0, "t_2": 0.5}]
    paths = explore(run, max_paths=40 if C.tier == "quick" else 400, on_path=on_path, seeds=seeds)
    C.decisions += sum(len(p.decisions) for p in paths)
    if explore.truncated:
        C.note_inconclusive("path-budget", "path budget hit")
    return C.result()


def replay(spec):
    import warnings

    import magpylib as m

    if spec.get("kind") == "selfintersect":
        return _replay_selfintersect(spec)
    if spec.get("kind") == "status":
        return _replay_status(spec)
    V0, faces = _faces(spec)
    env = spec.get("env") or {}
    s = float(env.get("s") or 1.0)
    t = np.array([env.get(f"t_{k}") or 0.0 for k in range(3)], dtype=float)
    msgs = []
    # the candidate names a size/placement; scan the powers of ten around it as well (the decision depends on absolute tolerances)
    for sc in [s] + [10.0 ** k for k in (-9, -7, -6, -5, -3, 0, 3, 6, 9)]:
        V = V0 * sc + t * (sc / s if s else 1.0)
        with warnings.catch_warnings():
            warnings.simplefilter("ignore")
            try:
                tm = m.magnet.TriangularMesh(vertices=V, faces=faces, polarization=(0, 0, 1), reorient_faces=True,
                                             check_open="ignore", check_disconnected="ignore", check_selfintersecting="ignore")
            except Exception as e:  # noqa
                return True, f"TriangularMesh(scale {sc:g}) raised {type(e).__name__}: {e}"
        bad = [i for i, f in enumerate(tm.faces) if not _outward(V0, f, spec["base"])]
        if bad:
            msgs.append(f"scale {sc:g}: faces {bad} point inwards after reorientation")
    return bool(msgs), f"base {spec['base']} order {spec['order']} flipped {spec['flips']}: " + ("; ".join(msgs[:3]) or "all faces outward at every tested scale")
