"""CrossHair harness functions for C19: which path indices are drawn (get_rot_pos_from_path).

"any object whose path is shorter than the displayed index stays at its last pose": an index beyond the object's path length must be
clamped to the last index, never wrapped.  Selectors choose path length, the frame list and the step.
"""
import numpy as np

from magpylib._src.display.traces_utility import get_rot_pos_from_path


class _Obj:
    def __init__(self, n):
        self._position = np.arange(n * 3, dtype=float).reshape(n, 3)
        self._orientation = np.arange(n)  # only indexed


def _pick(seq, i):
    for j in range(len(seq)):
        if i == j:
            return seq[j]
    return seq[-1]


LENS = (1, 2, 3, 4, 5)
IDX = (0, 1, 2, 3, 4, 5, 6, 7)


def h_frames_list(n: int, i0: int, i1: int, i2: int) -> bool:
    """
    pre: 0 <= n <= 4 and 0 <= i0 <= 7 and 0 <= i1 <= 7 and 0 <= i2 <= 7
    post: _
    """
    L = _pick(LENS, n)
    frames = [_pick(IDX, i0), _pick(IDX, i1), _pick(IDX, i2)]
    rots, poss, inds = get_rot_pos_from_path(_Obj(L), show_path=frames)
    exp = sorted({min(f, L - 1) for f in frames})
    return list(inds) == exp and [list(p) for p in poss] == [[3.0 * k, 3.0 * k + 1, 3.0 * k + 2] for k in exp] and list(rots) == exp


def h_frames_step(n: int, k: int) -> bool:
    """
    pre: 0 <= n <= 4 and 1 <= k <= 6
    post: _
    """
    L = _pick(LENS, n)
    step = _pick((0, 1, 2, 3, 4, 5, 6), k)
    rots, poss, inds = get_rot_pos_from_path(_Obj(L), show_path=step)
    exp = sorted(set(range(L - 1, -1, -step)))
    return list(inds) == exp


def h_frames_bool(n: int, flag: bool) -> bool:
    """
    pre: 0 <= n <= 4
    post: _
    """
    L = _pick(LENS, n)
    rots, poss, inds = get_rot_pos_from_path(_Obj(L), show_path=flag)
    k = L - 1  # the last pose (the implementation may name it -1)
    return len(poss) == 1 and list(poss[0]) == [3.0 * k, 3.0 * k + 1, 3.0 * k + 2] and list(rots) == [k]


def twin_frames_clamped(n: int, i0: int) -> bool:
    """
    pre: 0 <= n <= 4 and 0 <= i0 <= 7
    post: _
    """
    L = _pick(LENS, n)
    f = _pick(IDX, i0)
    rots, poss, inds = get_rot_pos_from_path(_Obj(L), show_path=[f])
    return not (f >= L and list(inds) == [L - 1])


# ---------------------------------------------------------------------------- "displaying never modifies the objects, their styles or the global defaults"
import magpylib as _magpy
from magpylib._src.display.traces_generic import process_animation_kwargs
from magpylib._src.utility import style_temp_edit


class _Style:
    def copy(self):
        return _Style()


class _Holder:
    pass


def h_style_restored_after_drawing(fail: bool, copy: bool, has_temp: bool, had_style: bool) -> bool:
    """
    post: _
    """
    # the temporary (resolved) style is installed only for the duration of the drawing - also when the drawing raises
    ob = _Holder()
    orig = _Style() if had_style else None
    ob._style = orig
    temp = _Style() if has_temp else None
    seen = []
    try:
        with style_temp_edit(ob, temp, copy=copy):
            seen.append(ob._style)
            if fail:
                raise KeyError("drawing failed")
    except KeyError:
        pass
    during_ok = (seen[0] is None) if not has_temp else (isinstance(seen[0], _Style) and seen[0] is not orig and ((seen[0] is temp) != copy))
    return ob._style is orig and during_ok


def twin_style_restored_after_drawing(fail: bool, copy: bool) -> bool:
    """
    post: _
    """
    ob = _Holder()
    ob._style = _Style()
    try:
        with style_temp_edit(ob, _Style(), copy=copy):
            if fail:
                raise KeyError("drawing failed")
    except KeyError:
        return False  # the failing branch is reachable
    return True


_PATH_OBJ = _magpy.magnet.Cuboid(polarization=(0, 0, 1), dimension=(1, 1, 1), position=[(0, 0, 0), (1, 0, 0), (2, 0, 0)])


FPS = (1, 3, 50)
FRAMES = (5, 200)
SECS = (2, 60)


def h_animation_settings_do_not_leak(i_fps: int, i_maxfps: int, i_frames: int, i_secs: int, slider: bool, by_number: bool) -> bool:
    """
    pre: 0 <= i_fps <= 2 and 0 <= i_maxfps <= 2 and 0 <= i_frames <= 1 and 0 <= i_secs <= 1
    post: _
    """
    # animation settings given in a show() call apply to that call only: the global defaults are the same before and after.
    # (values are picked from committed tuples by symbolic selectors: CrossHair runs builtin setattr(), hence the validators of the
    #  defaults classes, outside its tracer, so the values themselves cannot stay symbolic)
    fps, maxfps, maxframes, secs = _pick(FPS, i_fps), _pick(FPS, i_maxfps), _pick(FRAMES, i_frames), _pick(SECS, i_secs)
    slider = True if slider else False  # concrete per path (see above)
    anim = _magpy.defaults.display.animation
    before = anim.as_dict()
    kw = {"animation_fps": fps, "animation_maxfps": maxfps, "animation_maxframes": maxframes, "animation_slider": slider}
    if not by_number:
        kw["animation_time"] = secs
    rest, animation, akw = process_animation_kwargs([_PATH_OBJ], animation=(secs if by_number else True), opacity=0.5, **kw)
    after = anim.as_dict()
    if after != before:
        anim.update(**before)  # do not let one path pollute the next one
    call_ok = (animation is True and akw["animation_fps"] == fps and akw["animation_maxfps"] == maxfps and akw["animation_maxframes"] == maxframes
               and akw["animation_time"] == secs and akw["animation_slider"] == slider and rest == {"opacity": 0.5})
    return after == before and call_ok


def twin_animation_settings_do_not_leak(i_fps: int, i_secs: int) -> bool:
    """
    pre: 0 <= i_fps <= 2 and 0 <= i_secs <= 1
    post: _
    """
    rest, animation, akw = process_animation_kwargs([_PATH_OBJ], animation=True, animation_fps=_pick(FPS, i_fps), animation_time=_pick(SECS, i_secs))
    return akw["animation_fps"] == _magpy.defaults.display.animation.fps


# ---------------------------------------------------------------------------- every object of a (nested) collection gets a graphic
from types import SimpleNamespace as _NS

import magpylib._src.display.traces_utility as _TU

_T, _M, _L = _magpy.Collection(), _magpy.Collection(), _magpy.Collection()
_S1 = _magpy.Sensor()
_D1 = _magpy.misc.Dipole(moment=(1, 0, 0))
_TC = [_T, _M, _L]
_TO = [_T, _M, _L, _S1, _D1]


def _fake_style(obj, defaults, **kw):
    # stub for get_style (resolved per object; its content is the subject of C20): only the attributes the bookkeeping reads
    return _NS(label="x", color="k", legend=_NS(text="t", show=True), description=_NS(show=False, text=None))


def _tree(pm: int, pl: int, ps: int, pd: int):
    for o in _TO:
        o._parent = None
    for c in _TC:
        c._children = []
        c._sources = []
        c._sensors = []
        c._collections = []
    for o, p in ((_M, pm), (_L, pl), (_S1, ps), (_D1, pd)):
        if p >= 0:
            o._parent = _TC[p]
            _TC[p]._children.append(o)
    for c in _TC:
        c._update_src_and_sens()


def _descendants(c):
    out = []
    for x in getattr(c, "_children", []):
        out.append(x)
        out += _descendants(x)
    return out


def h_every_descendant_is_drawn(pm: int, pl: int, ps: int, pd: int, top: int) -> bool:
    """
    pre: -1 <= pm <= 0 and -1 <= pl <= 1 and -1 <= ps <= 2 and -1 <= pd <= 2 and 0 <= top <= 4
    post: _
    """
    # show(X) in one subplot and show(T) in a second one: the bookkeeping that decides which objects get a graphic in which subplot lists X
    # and every object below it, at any nesting depth, exactly once per subplot
    _tree(pm, pl, ps, pd)
    x = _TO[top]
    objs = [{"objects": [x], "row": 1, "col": 1}, {"objects": [_T], "row": 1, "col": 2}]
    orig = _TU.get_style
    _TU.get_style = _fake_style
    try:
        res = _TU.get_objects_props_by_row_col(*objs, colorsequence=["r", "g", "b"], style_kwargs={})
    finally:
        _TU.get_style = orig
    ok = True
    for spec in objs:
        root = spec["objects"][0]
        want = [root] + _descendants(root)
        got = list(res[(spec["row"], spec["col"])]["objects"].keys())
        ok = ok and len(got) == len(want) and all(any(g is w for g in got) for w in want)
    return ok


def twin_every_descendant_is_drawn(pm: int, pl: int, ps: int) -> bool:
    """
    pre: -1 <= pm <= 0 and -1 <= pl <= 1 and -1 <= ps <= 2
    post: _
    """
    _tree(pm, pl, ps, -1)
    return not (_S1._parent is _L and _L._parent is _M and _M._parent is _T)  # a sensor three levels deep is reachable


# ---------------------------------------------------------------------------- animation frames draw the path index they announce
import warnings as _warnings

import magpylib._src.display.traces_generic as _TG

_PATH_SENS = [_magpy.Sensor(position=[(i, 0, 0) for i in range(n)]) for n in (2, 3, 5, 7, 12)]


def h_animation_frames_draw_announced_index(i_len: int, i_max: int, i_fps: int, i_secs: int) -> bool:
    """
    pre: 0 <= i_len <= 4 and 0 <= i_max <= 3 and 0 <= i_fps <= 2 and 0 <= i_secs <= 1
    post: _
    """
    # get_frames (frame selection, down-sampling) with the trace builder stubbed: every frame asks the builder for exactly the path index
    # that its name / title announce, the indices increase, stay inside the path, and the last path position is shown
    s = _pick(_PATH_SENS, i_len)
    n = len(s._position)
    asked = []

    def fake_draw_frame(objs, **kw):
        asked.append(list(kw["style_kwargs"].get("style_path_frames", ["missing"])))
        return [], [], {}

    orig = _TG.draw_frame
    _TG.draw_frame = fake_draw_frame
    try:
        with _warnings.catch_warnings():
            _warnings.simplefilter("ignore")
            out = _TG.get_frames([{"objects": [s], "row": 1, "col": 1}], animation=True, style_kwargs={}, animation_maxframes=_pick((2, 3, 4, 50), i_max),
                                 animation_fps=_pick(FPS, i_fps), animation_time=_pick(SECS, i_secs))
    finally:
        _TG.draw_frame = orig
    names = [int(f["name"]) - 1 for f in out["frames"]]
    drawn = [int(a[0]) for a in asked if len(a) == 1 and a[0] != "missing"]
    ok = len(drawn) == len(asked) == len(names) and drawn == names
    ok = ok and all(0 <= k < n for k in names) and all(a < b for a, b in zip(names, names[1:])) and names[-1] == n - 1
    return ok


def twin_animation_frames_downsampled(i_len: int, i_max: int) -> bool:
    """
    pre: 0 <= i_len <= 4 and 0 <= i_max <= 3
    post: _
    """
    s = _pick(_PATH_SENS, i_len)
    orig = _TG.draw_frame
    _TG.draw_frame = lambda objs, **kw: ([], [], {})
    try:
        with _warnings.catch_warnings():
            _warnings.simplefilter("ignore")
            out = _TG.get_frames([{"objects": [s], "row": 1, "col": 1}], animation=True, style_kwargs={}, animation_maxframes=_pick((2, 3, 4, 50), i_max))
    finally:
        _TG.draw_frame = orig
    return len(out["frames"]) == len(s._position)  # must be refuted: some setting down-samples the path


# ---------------------------------------------------------------------------- the coordinates are in the unit announced on the axes
from magpylib._src.utility import get_unit_factor

_PREFIXES = (("y", -24), ("z", -21), ("a", -18), ("f", -15), ("p", -12), ("n", -9), ("µ", -6), ("m", -3), ("c", -2), ("d", -1), ("k", 3), ("M", 6), ("G", 9),
             ("T", 12), ("P", 15), ("E", 18), ("Z", 21), ("Y", 24))


def h_unit_factor(i: int) -> bool:
    """
    pre: 0 <= i <= 17
    post: _
    """
    # a length of x metres is drawn as x * factor in the announced unit <prefix>m = 10**power m, so factor * 10**power == 1
    pref, power = _pick(_PREFIXES, i)
    f = get_unit_factor(pref + "m", target_unit="m")
    return abs(f * 10.0 ** power - 1.0) < 1e-9 and get_unit_factor("m", target_unit="m") == 1 and get_unit_factor(None, target_unit="m") == 1
