"""CrossHair harness functions for C19: which path indices are drawn (get_rot_pos_from_path).

"any object whose path is shorter than the displayed index stays at its last pose": an index beyond the object's path length must be
clamped to the last index, never wrapped.  Selectors choose path length, the frame list and the step.
"""
import numpy as np

from magpylib._src.display.traces_utility import get_rot_pos_from_path


class _Obj:
    def __init__(self, n):
        self._position = np.arange(n * 3, dtype=float).reshape(n, 3)
        self._orientation = np.arange(n)  # only indexed


def _pick(seq, i):
    for j in range(len(seq)):
        if i == j:
            return seq[j]
    return seq[-1]


LENS = (1, 2, 3, 4, 5)
IDX = (0, 1, 2, 3, 4, 5, 6, 7)


def h_frames_list(n: int, i0: int, i1: int, i2: int) -> bool:
    """
    pre: 0 <= n <= 4 and 0 <= i0 <= 7 and 0 <= i1 <= 7 and 0 <= i2 <= 7
    post: _
    """
    L = _pick(LENS, n)
    frames = [_pick(IDX, i0), _pick(IDX, i1), _pick(IDX, i2)]
    rots, poss, inds = get_rot_pos_from_path(_Obj(L), show_path=frames)
    exp = sorted({min(f, L - 1) for f in frames})
    return list(inds) == exp and [list(p) for p in poss] == [[3.0 * k, 3.0 * k + 1, 3.0 * k + 2] for k in exp] and list(rots) == exp


def h_frames_step(n: int, k: int) -> bool:
    """
    pre: 0 <= n <= 4 and 1 <= k <= 6
    post: _
    """
    L = _pick(LENS, n)
    step = _pick((0, 1, 2, 3, 4, 5, 6), k)
    rots, poss, inds = get_rot_pos_from_path(_Obj(L), show_path=step)
    exp = sorted(set(range(L - 1, -1, -step)))
    return list(inds) == exp


def h_frames_bool(n: int, flag: bool) -> bool:
    """
    pre: 0 <= n <= 4
    post: _
    """
    L = _pick(LENS, n)
    rots, poss, inds = get_rot_pos_from_path(_Obj(L), show_path=flag)
    k = L - 1  # the last pose (the implementation may name it -1)
    return len(poss) == 1 and list(poss[0]) == [3.0 * k, 3.0 * k + 1, 3.0 * k + 2] and list(rots) == [k]


def twin_frames_clamped(n: int, i0: int) -> bool:
    """
    pre: 0 <= n <= 4 and 0 <= i0 <= 7
    post: _
    """
    L = _pick(LENS, n)
    f = _pick(IDX, i0)
    rots, poss, inds = get_rot_pos_from_path(_Obj(L), show_path=[f])
    return not (f >= L and list(inds) == [L - 1])
