"""E1 plumbing: run one CrossHair condition per case (subprocess), parse the verdict, replay counterexamples.

Harness functions live in harness/chx_*.py files (imported by CrossHair itself).  Convention:
  def h_<name>(...) -> bool   with a PEP316 docstring `pre: ...` / `post: _`   returns True iff the property holds
  def twin_<name>(...) -> bool  reachability twin: same preconditions, `post: _`, deliberately false on the interesting
                                region: CrossHair MUST refute it, otherwise the harness is vacuous.
"""
import ast
import importlib
import os
import re
import subprocess
import sys
import time

ROOT = os.path.dirname(os.path.dirname(os.path.abspath(__file__)))


def find_functions(relpath):
    """-> list of (name, lineno inside the def)"""
    src = open(os.path.join(ROOT, relpath)).read()
    out = []
    for node in ast.parse(src).body:
        if isinstance(node, ast.FunctionDef) and (node.name.startswith("h_") or node.name.startswith("twin_")):
            out.append((node.name, node.lineno + 1))
    return out


def make_cases(relpath, tier, timeouts=(40, 300), weights=None):
    cases = []
    for name, line in find_functions(relpath):
        cases.append({"id": name, "file": relpath, "line": line, "func": name, "twin": name.startswith("twin_"),
                      "timeout": timeouts[0] if tier == "quick" else timeouts[1], "weight": (weights or {}).get(name, 2),
                      "budget": (timeouts[0] if tier == "quick" else timeouts[1]) * 3 + 60})
    return cases


def run_case(case, info, modname):
    t0 = time.time()
    py = sys.executable
    env = dict(os.environ)
    env["PYTHONPATH"] = os.environ.get("VF_REPO", "/repo") + ":" + ROOT + (":" + env["PYTHONPATH"] if env.get("PYTHONPATH") else "")
    env.update(case.get("env", {}))
    cmd = [py, "-m", "crosshair", "check", "--report_all", "--per_condition_timeout", str(case["timeout"]),
           "--per_path_timeout", str(max(5, case["timeout"] // 4)), f"{case['file']}:{case['line']}"]
    try:
        p = subprocess.run(cmd, cwd=ROOT, env=env, capture_output=True, text=True, timeout=case["timeout"] * 3 + 30)
        out = p.stdout + p.stderr
    except subprocess.TimeoutExpired as e:
        out = "TIMEOUT " + str(e)
    verdict, call = parse(out)
    res = {"obligations": [], "candidates": [], "samples": [], "vacuous": [], "paths": 1, "decisions": 1, "validated": 0,
           "coverage": {}, "stats": {"queries": 1, "solver_time_s": {"crosshair": round(time.time() - t0, 2)}, "results": {verdict: 1}}}
    name = case["func"]
    if case["twin"]:
        if verdict == "counterexample":
            res["obligations"].append({"name": name, "status": "unsat", "witness": "sat",
                                       "note": f"reachability twin refuted as required: {call}"})
        elif verdict == "confirmed":
            res["vacuous"].append(f"reachability twin {name} was CONFIRMED: the interesting region is unreachable under the preconditions")
        else:
            res["obligations"].append({"name": name, "status": "unknown", "note": f"twin inconclusive: {verdict}: {out[-200:]}"})
        return res
    if verdict == "confirmed":
        res["obligations"].append({"name": name, "status": "unsat", "witness": "sat", "backend": "crosshair", "note": "Confirmed over all paths"})
        res["samples"].append({"case": name, "obligation": name, "result": "Confirmed over all paths", "what": case.get("what", name)})
    elif verdict == "counterexample":
        res["obligations"].append({"name": name, "status": "sat", "note": call})
        res["candidates"].append({"key": f"{info.get('pid', '')}|{name}", "replay": {"kind": "ch", "module": modname, "call": call,
                                                                                     "ncoll": case.get("env", {}).get("VF_C11_NCOLL", "2")}})
    else:
        res["obligations"].append({"name": name, "status": "unknown", "note": f"{verdict}: {out.strip()[-300:]}"})
    return res


def parse(out):
    m = re.search(r"error: (?:false|.*?) when calling (.*?)(?: \(which returns|$)", out, re.S)
    if "Confirmed over all paths" in out:
        return "confirmed", None
    if m:
        return "counterexample", m.group(1).strip()
    m2 = re.search(r"error: (\w+(?:Error|Exception)[^\n]*) when calling ([^\n]*)", out)
    if m2:
        return "counterexample", m2.group(2).strip()
    if "Unable to meet precondition" in out:
        return "precondition-unmet", None
    if "Not confirmed" in out:
        return "not-confirmed", None
    return "no-verdict", None


def replay_call(spec):
    """evaluate the counterexample call on the plain library: reproduced iff the harness function returns False or raises"""
    mod = importlib.import_module(spec["module"])
    call = spec["call"]
    ns = dict(vars(mod))
    try:
        r = eval(call, ns)  # noqa: S307  (call string produced by CrossHair from our own harness function)
    except Exception as e:  # noqa
        return True, f"{call} raised {type(e).__name__}: {e}"
    return (r is False), f"{call} returned {r!r}"
