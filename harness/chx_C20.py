"""CrossHair harness functions for C20: style settings resolve by precedence (dictionary mechanics and leaf precedence).

Keys are drawn by integer selectors from a small alphabet (free-form symbolic str keys never confirm), depth <= 2, Optional[int] leaves.
Leaf precedence of get_style is decided for numeric leaves whose four sources (show kwarg, object style, family default, base default) are
chosen by selectors from a value list that includes None.
"""
import magpylib as magpy
from magpylib._src.defaults.defaults_classes import DefaultSettings
from magpylib._src.defaults.defaults_utility import linearize_dict, magic_to_dict, update_nested_dict
from magpylib._src.style import get_style

NAMES = ("a", "b", "c", "d")
VALS = (None, 0, 1, 2)


def _pick(seq, i):
    for j in range(len(seq)):
        if i == j:
            return seq[j]
    return seq[-1]


def h_update_flat(p0: int, k0: int, v0: int, p1: int, k1: int, v1: int, j0: int, w0: int, none_only: bool, same_only: bool) -> bool:
    """
    pre: 0 <= p0 <= 1 and 0 <= p1 <= 1 and 0 <= k0 <= 2 and 0 <= k1 <= 2 and 0 <= j0 <= 2 and 0 <= v0 <= 1 and 0 <= v1 <= 1 and 0 <= w0 <= 1
    post: _
    """
    d = {}
    if p0:
        d[_pick(NAMES, k0)] = _pick(VALS, v0)
    if p1:
        d[_pick(NAMES, k1)] = _pick(VALS, v1)
    u = {_pick(NAMES, j0): _pick(VALS, w0)}
    d_before = dict(d)
    r = update_nested_dict(d, u, same_keys_only=same_only, replace_None_only=none_only)
    exp = dict(d)
    for k, v in u.items():
        if same_only and k not in d:
            continue
        if none_only and d.get(k) is not None:
            continue
        exp[k] = v
    return r == exp and d == d_before  # and the input is not modified


def h_update_nested(k0: int, v0: int, v1: int, j0: int, w0: int, inner: bool, none_only: bool, same_only: bool) -> bool:
    """
    pre: 0 <= k0 <= 2 and 0 <= j0 <= 2 and 0 <= v0 <= 1 and 0 <= v1 <= 1 and 0 <= w0 <= 1
    post: _
    """
    d = {"s": {_pick(NAMES, k0): _pick(VALS, v0), "z": _pick(VALS, v1)}, "t": 5}
    u = {"s": {_pick(NAMES, j0): _pick(VALS, w0)}} if inner else {"s": {_pick(NAMES, j0): _pick(VALS, w0)}, "n": {"q": _pick(VALS, w0)}}
    r = update_nested_dict(d, u, same_keys_only=same_only, replace_None_only=none_only)
    exp_s = dict(d["s"])
    key = _pick(NAMES, j0)
    if not (same_only and key not in exp_s) and not (none_only and exp_s.get(key) is not None):
        exp_s[key] = _pick(VALS, w0)
    exp = {"s": exp_s, "t": 5}
    if not inner and not same_only:
        exp["n"] = {"q": _pick(VALS, w0)}
    return r == exp


def h_magic_roundtrip(k1: int, k2: int, k3: int, k4: int, v1: int, v2: int) -> bool:
    """
    pre: 0 <= k1 <= 3 and 0 <= k2 <= 3 and 0 <= k3 <= 3 and 0 <= k4 <= 3
    post: _
    """
    kw = {f"{_pick(NAMES, k1)}_{_pick(NAMES, k2)}": v1, f"{_pick(NAMES, k3)}_{_pick(NAMES, k4)}": v2}
    r = magic_to_dict(kw)
    exp = {}
    for (a, b), v in (((_pick(NAMES, k1), _pick(NAMES, k2)), v1), ((_pick(NAMES, k3), _pick(NAMES, k4)), v2)):
        exp.setdefault(a, {})[b] = v
    return r == exp and linearize_dict(r, separator="_") == dict(kw)


def h_magic_depth3(k1: int, k2: int, k3: int, v1: int, flat: int) -> bool:
    """
    pre: 0 <= k1 <= 3 and 0 <= k2 <= 3 and 0 <= k3 <= 3 and 0 <= flat <= 3
    post: _
    """
    a, b, c = _pick(NAMES, k1), _pick(NAMES, k2), _pick(NAMES, k3)
    kw = {f"{a}_{b}_{c}": v1, "e": flat}
    return magic_to_dict(kw) == {a: {b: {c: v1}}, "e": flat}


# ----------------------------------------------------------------------------- leaf precedence of get_style
_DS = DefaultSettings()
_CUB = magpy.magnet.Cuboid(dimension=(1, 1, 1), polarization=(0, 0, 1))
_SEN = magpy.Sensor()
# (every condition assigns each default / object leaf it reads on every path, so no reset between paths is needed; a full
#  DefaultSettings.reset() costs seconds under the tracer)
OPAC = (None, 0.25, 0.5, 0.75)
SIZES = (None, 1, 2, 3)


def _first(*vals):
    for v in vals:
        if v is not None:
            return v
    return None


def h_precedence_opacity(kw: int, ob: int, base: int) -> bool:
    """
    pre: 0 <= kw <= 2 and 0 <= ob <= 2 and 1 <= base <= 2
    post: _
    """
    # base-level leaf `opacity`: show kwarg > object style > base default
    _CUB.style.opacity = None
    _CUB.style.magnetization.arrow.width = None
    _SEN.style.path.line.width = None
    _DS.display.style.base.opacity = _pick(OPAC, base)
    _CUB.style.opacity = _pick(OPAC, ob)
    kwargs = {} if _pick(OPAC, kw) is None else {"style_opacity": _pick(OPAC, kw)}
    st = get_style(_CUB, _DS, **kwargs)
    ok = st.opacity == _first(_pick(OPAC, kw), _pick(OPAC, ob), _pick(OPAC, base))
    # the object's own style and the defaults are not modified by resolving the style
    ok = ok and _CUB.style.opacity == _pick(OPAC, ob) and _DS.display.style.base.opacity == _pick(OPAC, base)
    _CUB.style.opacity = None
    return ok


def h_precedence_family_leaf(kw: int, ob: int, fam: int, notation: int) -> bool:
    """
    pre: 0 <= kw <= 2 and 0 <= ob <= 2 and 1 <= fam <= 2 and 0 <= notation <= 2
    post: _
    """
    # family-level leaf magnetization.arrow.width (magnet family): show kwarg > object style > family default; object value in one of the three notations
    _CUB.style.opacity = None
    _CUB.style.magnetization.arrow.width = None
    _SEN.style.path.line.width = None
    _DS.display.style.magnet.magnetization.arrow.width = _pick(SIZES, fam)
    _CUB.style.magnetization.arrow.width = None
    if notation == 0:
        _CUB.style.update(magnetization_arrow_width=_pick(SIZES, ob))
    elif notation == 1:
        _CUB.style.update({"magnetization": {"arrow": {"width": _pick(SIZES, ob)}}})
    else:
        _CUB.style.magnetization.arrow.width = _pick(SIZES, ob)
    kwargs = {} if _pick(SIZES, kw) is None else {"style_magnetization_arrow_width": _pick(SIZES, kw)}
    st = get_style(_CUB, _DS, **kwargs)
    ok = st.magnetization.arrow.width == _first(_pick(SIZES, kw), _pick(SIZES, ob), _pick(SIZES, fam))
    ok = ok and _CUB.style.magnetization.arrow.width == _pick(SIZES, ob) and _DS.display.style.magnet.magnetization.arrow.width == _pick(SIZES, fam)
    _CUB.style.magnetization.arrow.width = None
    return ok


def h_precedence_base_nested_leaf(kw: int, ob: int, base: int, notation: int) -> bool:
    """
    pre: 0 <= kw <= 2 and 0 <= ob <= 2 and 1 <= base <= 2 and 0 <= notation <= 2
    post: _
    """
    # nested base leaf path.line.width on a Sensor
    _CUB.style.opacity = None
    _CUB.style.magnetization.arrow.width = None
    _SEN.style.path.line.width = None
    _DS.display.style.base.path.line.width = _pick(SIZES, base)
    _SEN.style.path.line.width = None
    if notation == 0:
        _SEN.style.update(path_line_width=_pick(SIZES, ob))
    elif notation == 1:
        _SEN.style.update({"path": {"line": {"width": _pick(SIZES, ob)}}})
    else:
        _SEN.style.path.line.width = _pick(SIZES, ob)
    kwargs = {} if _pick(SIZES, kw) is None else {"style_path_line_width": _pick(SIZES, kw)}
    st = get_style(_SEN, _DS, **kwargs)
    ok = st.path.line.width == _first(_pick(SIZES, kw), _pick(SIZES, ob), _pick(SIZES, base))
    ok = ok and _SEN.style.path.line.width == _pick(SIZES, ob)
    _SEN.style.path.line.width = None
    return ok


def h_last_assignment_wins(a: int, b: int, n1: int, n2: int) -> bool:
    """
    pre: 1 <= a <= 3 and 1 <= b <= 3 and 0 <= n1 <= 2 and 0 <= n2 <= 2
    post: _
    """
    st = _SEN.style
    st.path.marker.size = None

    def put(v, n):
        if n == 0:
            st.update(path_marker_size=v)
        elif n == 1:
            st.update({"path": {"marker": {"size": v}}})
        else:
            st.path.marker.size = v

    put(_pick(SIZES, a), n1)
    put(_pick(SIZES, b), n2)
    ok = st.path.marker.size == _pick(SIZES, b)
    st.path.marker.size = None
    return ok


_OBJ_LEAVES = (("opacity", (0.25, 0.5)), ("path.line.width", (3, 7)), ("magnetization.arrow.width", (4, 9)), ("magnetization.arrow.size", (2, 3)),
               ("magnetization.color.transition", (0.25, 0.5)), ("path.marker.size", (4, 6)))


_CUB2 = magpy.magnet.Cuboid(polarization=(0, 0, 1), dimension=(1, 1, 1))


def _get_leaf(root, dotted):
    o = root
    for p in dotted.split("."):
        o = getattr(o, p)
    return o


def h_last_assignment_wins_any_leaf(leaf: int, n1: int, n2: int) -> bool:
    """
    pre: 0 <= leaf <= 5 and 0 <= n1 <= 2 and 0 <= n2 <= 2
    post: _
    """
    # two successive assignments of one leaf of a magnet style, each in any of the three notations: the second value is the effective one
    st = _CUB2.style
    k, vals = _pick(_OBJ_LEAVES, leaf)
    _set_leaf(st, k, None, 0)
    _set_leaf(st, k, vals[0], n1)
    first_ok = _get_leaf(st, k) == vals[0]
    _set_leaf(st, k, vals[1], n2)
    ok = first_ok and _get_leaf(st, k) == vals[1]
    _set_leaf(st, k, None, 0)
    return ok


def h_invalid_value_rejected(x: int) -> bool:
    """
    pre: -3 <= x <= 3
    post: _
    """
    st = _CUB.style
    try:
        st.opacity = x
        accepted = True
    except (ValueError, AssertionError):
        accepted = False
    ok = accepted == (0 <= x <= 1)
    st.opacity = None
    return ok


def twin_precedence_object_value_used(ob: int, fam: int) -> bool:
    """
    pre: 0 <= ob <= 3 and 1 <= fam <= 3
    post: _
    """
    # reachability: some combination resolves to the object's own value although a different family default is set
    _CUB.style.opacity = None
    _CUB.style.magnetization.arrow.width = None
    _SEN.style.path.line.width = None
    _DS.display.style.magnet.magnetization.arrow.width = _pick(SIZES, fam)
    _CUB.style.magnetization.arrow.width = _pick(SIZES, ob)
    st = get_style(_CUB, _DS)
    r = not (_pick(SIZES, ob) is not None and st.magnetization.arrow.width == _pick(SIZES, ob) and _pick(SIZES, ob) != _pick(SIZES, fam))
    _CUB.style.magnetization.arrow.width = None
    return r


_TRI = magpy.misc.Triangle(vertices=[(0, 0, 0), (1, 0, 0), (0, 1, 0)], polarization=(0, 0, 1))


def h_precedence_two_families(ob: int, spec: int, gen: int) -> bool:
    """
    pre: 0 <= ob <= 2 and 0 <= spec <= 2 and 1 <= gen <= 2
    post: _
    """
    # a Triangle belongs to the generic 'magnet' family and to its own 'triangle' family: object style > triangle default > magnet default
    _DS.display.style.magnet.magnetization.arrow.width = _pick(SIZES, gen)
    _DS.display.style.triangle.magnetization.arrow.width = _pick(SIZES, spec)
    _TRI.style.magnetization.arrow.width = _pick(SIZES, ob)
    st = get_style(_TRI, _DS)
    ok = st.magnetization.arrow.width == _first(_pick(SIZES, ob), _pick(SIZES, spec), _pick(SIZES, gen))
    _TRI.style.magnetization.arrow.width = None
    return ok


# ---------------------------------------------------------------------------- "never leak": the resolved style of a show() call is temporary
from magpylib._src.utility import style_temp_edit


def h_show_style_does_not_leak(with_kw: bool, fail: bool, copy: bool) -> bool:
    """
    post: _
    """
    # the effective style (show kwarg > object > defaults) is installed on the object only while its traces are built;
    # afterwards - also when building them raises - the object's own style is what it was: same object, same leaves
    o = magpy.magnet.Cuboid(polarization=(0, 0, 1), dimension=(1, 1, 1), style_opacity=0.5)
    own = o.style
    own_before = own.as_dict()
    resolved = get_style(o, magpy.defaults, **({"style_opacity": 0.25} if with_kw else {}))
    seen = []
    try:
        with style_temp_edit(o, resolved, copy=copy):
            seen.append(o.style.opacity)
            o.style.magnetization.show = False  # display code edits the temporary style
            if fail:
                raise KeyError("building the traces failed")
    except KeyError:
        pass
    return o.style is own and own.as_dict() == own_before and seen == [0.25 if with_kw else 0.5]


def twin_show_style_does_not_leak(kw: int, fail: bool) -> bool:
    """
    pre: 0 <= kw <= 3
    post: _
    """
    o = magpy.magnet.Cuboid(polarization=(0, 0, 1), dimension=(1, 1, 1))
    v_kw = _pick(VALS, kw)
    resolved = get_style(o, magpy.defaults, **({} if v_kw is None else {"style_opacity": v_kw / 2}))
    try:
        with style_temp_edit(o, resolved, copy=True):
            if fail:
                raise KeyError("x")
    except KeyError:
        return False
    return True


# ---------------------------------------------------------------------------- reset restores every default; styles of different objects / copies are independent
_LEAVES = (
    ("display.style.base.opacity", (0.25, 0.5)),
    ("display.style.base.path.line.width", (3, 7)),
    ("display.style.magnet.magnetization.arrow.width", (4, 9)),
    ("display.style.magnet.magnetization.arrow.size", (2, 3)),
    ("display.style.current.arrow.width", (4, 9)),
    ("display.style.sensor.size", (3, 5)),
    ("display.style.dipole.size", (3, 5)),
    ("display.style.triangle.magnetization.arrow.size", (2, 5)),
    ("display.style.markers.marker.size", (4, 6)),
    ("display.animation.fps", (7, 11)),
    ("display.autosizefactor", (5, 12)),
)
_PRISTINE = DefaultSettings().as_dict(flatten=True, separator=".")


def _set_leaf(root, dotted, val, notation):
    parts = dotted.split(".")
    if notation == 0:  # attribute assignment
        o = root
        for p in parts[:-1]:
            o = getattr(o, p)
        setattr(o, parts[-1], val)
    elif notation == 1:  # magic underscore keyword
        root.update(**{"_".join(parts): val})
    else:  # nested dictionary
        d = val
        for p in reversed(parts):
            d = {p: d}
        root.update(**d)


_DS2 = DefaultSettings()


def _reset_case(l1: int, v1: int, n1: int) -> bool:
    # an update of an arbitrary leaf in the given notation, then reset(): the leaf and all other listed leaves are back at the values of a
    # fresh DefaultSettings
    # (the defaults object is shared by the paths: every path leaves it reset; a path that finds reset() broken is the counterexample)
    ds = _DS2
    k, vals = _pick(_LEAVES, l1)
    _set_leaf(ds, k, _pick(vals, v1), n1)
    ok = _get_leaf(ds, k) == _pick(vals, v1)
    for kk, _v in _LEAVES:
        if kk != k:
            ok = ok and _get_leaf(ds, kk) == _PRISTINE[kk]  # nothing else moved
    ds.reset()
    for kk, _v in _LEAVES:
        ok = ok and _get_leaf(ds, kk) == _PRISTINE[kk]
    return ok


def h_reset_restores_defaults_attr(l1: int) -> bool:
    """
    pre: 0 <= l1 <= 10
    post: _
    """
    return _reset_case(l1, 0 % 2, 0)


def h_reset_restores_defaults_underscore(l1: int) -> bool:
    """
    pre: 0 <= l1 <= 10
    post: _
    """
    return _reset_case(l1, 1 % 2, 1)


def h_reset_restores_defaults_nested(l1: int) -> bool:
    """
    pre: 0 <= l1 <= 10
    post: _
    """
    return _reset_case(l1, 2 % 2, 2)


def twin_reset_restores_defaults(l1: int, v1: int, n1: int) -> bool:
    """
    pre: 0 <= l1 <= 10 and 0 <= v1 <= 1 and 0 <= n1 <= 2
    post: _
    """
    ds = _DS2
    k, vals = _pick(_LEAVES, l1)
    _set_leaf(ds, k, _pick(vals, v1), n1)
    r = _get_leaf(ds, k) == _PRISTINE[k]  # must be refuted: the update is visible
    _set_leaf(ds, k, _PRISTINE[k], 0)
    return r


_CUB3 = magpy.magnet.Cuboid(polarization=(0, 0, 1), dimension=(1, 1, 1))
_CUB4 = magpy.magnet.Cuboid(polarization=(0, 0, 1), dimension=(1, 1, 1))


def h_styles_independent(l1: int, n1: int) -> bool:
    """
    pre: 0 <= l1 <= 5 and 0 <= n1 <= 2
    post: _
    """
    # a style value set on one object shows neither on another object of the same class nor in the defaults; a copy made afterwards
    # carries it and is independent from then on
    a, b = _CUB3, _CUB4
    k, vals = _pick(_OBJ_LEAVES, l1)
    _set_leaf(a.style, k, None, 0)
    d_before = _get_leaf(magpy.defaults.display.style.magnet, k) if k.startswith("magnetization") else _get_leaf(magpy.defaults.display.style.base, k)
    _set_leaf(a.style, k, vals[0], n1)
    c1 = a.copy()
    ok = _get_leaf(a.style, k) == vals[0] and _get_leaf(b.style, k) is None
    d_after = _get_leaf(magpy.defaults.display.style.magnet, k) if k.startswith("magnetization") else _get_leaf(magpy.defaults.display.style.base, k)
    ok = ok and d_after == d_before
    ok = ok and _get_leaf(c1.style, k) == vals[0] and c1.style is not a.style
    _set_leaf(c1.style, k, vals[1], 0)
    ok = ok and _get_leaf(a.style, k) == vals[0]
    _set_leaf(a.style, k, None, 0)
    return ok


# ---------------------------------------------------------------------------- constructor style arguments are the FIRST assignment
def h_constructor_style_then_assignment(leaf: int, how: int, read_first: bool) -> bool:
    """
    pre: 0 <= leaf <= 2 and 0 <= how <= 3
    post: _
    """
    # a style value given to the constructor (applied lazily on first access) followed by an assignment of the same leaf as
    # update(underscore) / update(nested) / attribute / `obj.style = {...}`: the later assignment is the effective one, whether or not the
    # style was read in between
    k, vals = _pick((_OBJ_LEAVES[0], _OBJ_LEAVES[3], _OBJ_LEAVES[5]), leaf)  # opacity, magnetization.arrow.size, path.marker.size
    o = magpy.magnet.Cuboid(polarization=(0, 0, 1), dimension=(1, 1, 1), **{"style_" + k.replace(".", "_"): vals[0]})
    ok = True
    if read_first:
        ok = _get_leaf(o.style, k) == vals[0]
    if how <= 2:
        _set_leaf(o.style, k, vals[1], how)
    else:
        o.style = {k.replace(".", "_"): vals[1]}
    return ok and _get_leaf(o.style, k) == vals[1]


def h_magic_nested_then_underscore(k1: int, k2: int, k3: int, k4: int, v1: int, v2: int) -> bool:
    """
    pre: 0 <= k1 <= 3 and 0 <= k2 <= 3 and 0 <= k3 <= 3 and 0 <= k4 <= 3
    post: _
    """
    # one call that gives a nested dictionary first and an underscore keyword afterwards: the two are merged leaf by leaf and, on the same
    # leaf, the later one (the underscore keyword) wins
    a, b, a2, c = _pick(NAMES, k1), _pick(NAMES, k2), _pick(NAMES, k3), _pick(NAMES, k4)
    inner = {b: v1}
    kw = {a: inner, f"{a2}_{c}": v2}
    r = magic_to_dict(kw)
    exp = {a: {b: v1}}
    exp.setdefault(a2, {})[c] = v2
    return r == exp and (a != a2 or r[a][c] == v2)


# ---------------------------------------------------------------------------- show() keyword notations other than the full leaf path
_SHOW_FORMS = (
    ({"style_description": "txt"}, "description.text", "txt"),          # a string for a text sub-style
    ({"style_legend": "lt"}, "legend.text", "lt"),
    ({"style_magnetization_size": 3}, "magnetization.arrow.size", 3),  # deprecated alias
    ({"style_path": {"line_width": 4}}, "path.line.width", 4),        # dictionary for an inner node, magic keys inside
    ({"style_magnetization_arrow": {"size": 5}}, "magnetization.arrow.size", 5),
    ({"style": {"path_line_width": 6}}, "path.line.width", 6),        # everything in one style dictionary
)
_SHOW_BAD = ({"style_path_lin_width": 3}, {"style_magnetization_arow_size": 2}, {"style_opacit": 0.5}, {"style_path_line_widht": 1})


def h_show_keyword_forms(i: int, with_object_value: bool) -> bool:
    """
    pre: 0 <= i <= 5
    post: _
    """
    # every valid way of writing a style value in the show() call reaches its leaf and beats the object's own value
    kw, leaf, val = _pick(_SHOW_FORMS, i)
    st0 = _CUB2.style
    _set_leaf(st0, "path.line.width", 9 if with_object_value else None, 0)
    _set_leaf(st0, "magnetization.arrow.size", 9 if with_object_value else None, 0)
    st = get_style(_CUB2, magpy.defaults, **{k: (dict(v) if isinstance(v, dict) else v) for k, v in kw.items()})
    ok = _get_leaf(st, leaf) == val
    _set_leaf(st0, "path.line.width", None, 0)
    _set_leaf(st0, "magnetization.arrow.size", None, 0)
    return ok


def h_show_keyword_misspelled_rejected(i: int) -> bool:
    """
    pre: 0 <= i <= 3
    post: _
    """
    # a misspelled style name in the show() call is rejected, at any depth
    try:
        get_style(_CUB2, magpy.defaults, **_pick(_SHOW_BAD, i))
    except (AttributeError, ValueError):
        return True
    return False
