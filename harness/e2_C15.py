"""C15  every finite input yields a finite field: no singular expression escapes the masks.

Definedness is carried by every term (false after a division by a possibly-zero term, log of a possibly non-positive term,
sqrt of a possibly negative term, a leaf called outside its domain) and selected through np.where / mask assignment like
a NaN.  Obligation per feasible path and output component: path condition AND precondition AND not documented-singular
=> defined, for all reals - faces, edges, corners, axis, wire, zero excitation are just points the solver may pick.
"""
import importlib

import numpy as np
import z3

from symnum import CTX, S, oarr, symarr, toz, explore
from .common import Case
from .wrappers import WRAPPERS, apply_cuts, tetra_mesh, UNIT_TETRA

PROPERTY = "C15"
FUNCTIONS = [w.qual() for w in WRAPPERS.values()] + [
    "magpylib._src.fields.field_BH_cuboid:magnet_cuboid_Bfield",
    "magpylib._src.fields.field_BH_cylinder:magnet_cylinder_axial_Bfield",
    "magpylib._src.fields.field_BH_cylinder:magnet_cylinder_diametral_Hfield",
    "magpylib._src.fields.field_BH_circle:current_circle_Hfield",
    "magpylib._src.fields.field_BH_polyline:current_polyline_Hfield",
    "magpylib._src.fields.field_BH_dipole:dipole_Hfield",
    "magpylib._src.fields.field_BH_triangle:triangle_Bfield",
]
BOUNDS = [
    "1 row per call, all real inputs under the setter preconditions, no margin around special sets",
    "Polyline endpoints, Triangle / Tetrahedron vertices from fixed rational lists (observer, excitation symbolic), plus committed zero-size geometries "
    "(collinear / two-equal-vertex Triangle, flat Tetrahedron, zero-length Polyline segment, mesh with a zero-area face) run through the real kernels",
    "documented singular sets excluded: Dipole position; vertices (and, for this harness, edges) of Triangle-based sources",
    "CylinderSegment: section angles within [-720, 720] degrees; the cut segment kernel is treated as undefined exactly on the 8 corners of the section",
]
CUTS = [
    "cel / ellipe / ellipk / cel_iter / cylinder-segment H kernel bodies are cut; cel, ellipe, ellipk call sites carry their argument preconditions "
    "(kc != 0, m < 1, m <= 1) as obligations",
]
ASSUMPTIONS = ["real arithmetic: overflow, underflow and cancellation are not modelled", "atan2, sin, cos, atan are total"]
NOT_DECIDED = [
    "termination / iteration counts of cel0, celv, cel_iter*, el3* (nested square roots defeat nlsat)",
    "everything specific to doubles (1e12 distances, r**5 underflow); in particular NaN a few ulp next to a CylinderSegment corner (see DESIGN section 5)",
    "the 26 case evaluators inside magnet_cylinder_segment_Hfield (cut)",
    "definedness inside triangle_Bfield (log of sums of nested square roots): obligations end `unknown`; attempted only in the thorough tier",
]

FIXED = {
    "polyline": [{"segment_start": [(0, 0, 0)], "segment_end": [(1, 0, 0)]}, {"segment_start": [(1, -1, 0)], "segment_end": [(3, 0, 2)]}],
    "triangle": [{"vertices": [[(0, 0, 0), (2, 0, 0), (0, 3, 1)]]}],
    "tetra": [{"vertices": [[(0, 0, 0), (1, 0, 0), (0, 1, 0), (0, 0, 1)]]}],
    "trimesh": [{"mesh": [tetra_mesh(UNIT_TETRA).tolist()]}],
}
REAL_KERNEL = {"triangle", "tetra"}  # run without the triangle-kernel cut
# zero-size sources the setters accept ("zero-size and zero-excitation sources" are in the property's quantifier): concrete degenerate
# geometries, real kernels in both tiers (the degenerate vertices make most terms concrete)
DEGENERATE = {
    "triangle": [("collinear", {"vertices": [[(0, 0, 0), (1, 0, 0), (2, 0, 0)]]}), ("two-equal-vertices", {"vertices": [[(0, 0, 0), (1, 0, 0), (1, 0, 0)]]})],
    # (bodies with regular faces next to the degenerate part: the real triangle kernel is decidable only for a concrete observer)
    "tetra": [("flat", {"vertices": [[(0, 0, 0), (1, 0, 0), (0, 1, 0), (1, 1, 0)]], "observers": [(0.25, 0.5, 2)]}),
              ("flat-in-plane", {"vertices": [[(0, 0, 0), (1, 0, 0), (0, 1, 0), (1, 1, 0)]], "observers": [(0.25, 0.5, 0)]})],
    "polyline": [("zero-length", {"segment_start": [(1, 2, 3)], "segment_end": [(1, 2, 3)]})],
    "trimesh": [("with-zero-area-face", {"mesh": [tetra_mesh(UNIT_TETRA).tolist()[:3] + [[(0, 0, 0), (0.5, 0.5, 0), (1, 1, 0)]]], "observers": [(0.25, 0.5, 2)]})],
}


def cases(tier, seed):
    out = []
    for name in WRAPPERS:
        variants = FIXED.get(name, [None])
        for k, fx in enumerate(variants):
            out.append({"id": f"{name}-{k}", "wrapper": name, "fixed": fx, "weight": 3})
        for tag, fx in DEGENERATE.get(name, []):
            out.append({"id": f"{name}-degenerate-{tag}", "wrapper": name, "fixed": fx, "weight": 3, "degenerate": True})
    out.append({"id": "twin-bare-cuboid-kernel", "wrapper": "twin", "weight": 1})
    out.append({"id": "celv-preamble", "wrapper": "celv", "weight": 1})
    return out


def _singular(name, A):
    """documented singular set as a formula over the inputs (True = excluded from the claim)"""
    o = [toz(A["observers"][0, k]) for k in range(3)]
    if name == "dipole":
        return z3.And(*[x == 0 for x in o])
    if name in ("triangle", "tetra", "trimesh"):
        # vertices are documented; the edges carry the same log singularity of the charged-sheet formula: exclude points on the
        # carrier lines of the edges (stated bound)
        if name == "triangle":
            tris = [np.asarray(A["vertices"][0], dtype=object)]
        elif name == "tetra":
            v = np.asarray(A["vertices"][0], dtype=object)
            tris = [v[[0, 2, 1]], v[[0, 1, 3]], v[[1, 2, 3]], v[[0, 3, 2]]]
        else:
            tris = list(np.asarray(A["mesh"][0], dtype=object))
        terms = []
        for t in tris:
            for a, b in ((0, 1), (1, 2), (2, 0)):
                p, q = [toz(x) for x in t[a]], [toz(x) for x in t[b]]
                if all(z3.is_true(z3.simplify(p[k] == q[k])) for k in range(3)):
                    terms.append(z3.And(*[o[k] == p[k] for k in range(3)]))  # coinciding vertices: only the point itself
                    continue
                d = [q[k] - p[k] for k in range(3)]
                w = [o[k] - p[k] for k in range(3)]
                cr = [d[1] * w[2] - d[2] * w[1], d[2] * w[0] - d[0] * w[2], d[0] * w[1] - d[1] * w[0]]
                terms.append(z3.And(*[c == 0 for c in cr]))
        return z3.Or(*terms)
    return z3.BoolVal(False)


def _slab_band(A):
    """formula: r or z lies OUTSIDE an absolute 1e-14 slab around a face but within 1e-11 of it (where close() still calls it 'on the face')"""
    o = [S(toz(A["observers"][0, k])) for k in range(3)]
    r = (o[0] * o[0] + o[1] * o[1]).sqrt()
    d = [S(toz(A["dimension"][0, k])) for k in range(3)]
    lo, hi = z3.RealVal("1/100000000000000"), z3.RealVal("1/100000000000")
    terms = []
    for a, b in ((r, d[0]), (r, d[1]), (o[2], d[2] / 2), (o[2], -d[2] / 2)):
        dz = (a - b).z
        ad = z3.If(dz >= 0, dz, -dz)
        terms.append(z3.And(ad > lo, ad <= hi))
    return z3.Or(*terms)


def run_case(case, info):
    C = Case(case, info)
    if case["wrapper"] == "twin":
        _twin(C)
        return C.result()
    if case["wrapper"] == "celv":
        _celv(C)
        return C.result()
    name = case["wrapper"]
    w = WRAPPERS[name]
    # quick tier: the triangle kernel is cut (its internal log/sqrt definedness obligations end `unknown` after the full timeout);
    # thorough tier runs it for real and reports what stays inconclusive
    apply_cuts([c for c in w.cuts if not (c == "triB" and (case.get("degenerate") or (name in REAL_KERNEL and C.tier == "thorough")))])
    fn = w.fn()
    A = w.sym_args(1)
    for k, v in (case.get("fixed") or {}).items():
        A[k] = oarr(np.array(v, dtype=float))
    CTX.pre = [] if case.get("degenerate") else w.pre_all(A)  # degenerate cases: everything but observer / excitation is concrete
    if name in ("cylseg", "cylseg_internal"):
        # stated bound: section angles within +-720 degrees (the setter accepts any phi1 < phi2 <= phi1 + 360, e.g. 1.8e17 degrees, where doubles
        # cannot resolve the section any more)
        CTX.pre += [toz(A["dimension"][0, 3]) >= -720, toz(A["dimension"][0, 4]) <= 720]
    inputs = [x for x in w.inputs(A) if isinstance(x, S) and not z3.is_rational_value(x.z)]
    sing = _singular(name, A)

    def run():
        try:
            return {f: fn(field=f, **{k: v.copy() for k, v in A.items()}, **w.extra_kw) for f in "BH"}
        except Exception as e:  # noqa  (an accepted source that makes the field computation raise is a violation candidate)
            return e

    def on_path(p):
        C.paths += 1
        if p.status != "ok":
            C.note_inconclusive(f"p{C.paths}", f"aborted: {p.out}")
            return
        if isinstance(p.out, Exception):
            def on_raise(env):
                fargs = w.env_to_float_args(env, A)
                return {"key": f"C15|{w.func}|raises", "replay": {"wrapper": name, "field": "B", "args": {k: v.tolist() for k, v in fargs.items()}}}

            C.oblige(f"p{C.paths}.returns[{type(p.out).__name__}]", p.pc + [z3.Not(sing)], z3.BoolVal(True), on_model=on_raise, inputs=inputs, key=f"C15|{w.func}|raises")
            return
        for f in "BH":
            out = np.asarray(p.out[f], dtype=object)
            if out.shape != (1, 3):
                C.obligations.append({"name": f"p{C.paths}.{f}.shape", "status": "sat", "note": f"shape {out.shape}"})
                continue
            undefined = z3.Or(*[z3.Not(out[0, c].d) for c in range(3) if isinstance(out[0, c], S)] or [z3.BoolVal(False)])  # plain floats are defined

            def on_model(env, f=f):
                fargs = w.env_to_float_args(env, A)
                return {"key": f"C15|{w.func}|{f}|non-finite", "replay": {"wrapper": name, "field": f, "args": {k: v.tolist() for k, v in fargs.items()}}}

            C.oblige(f"p{C.paths}.{f}.defined", p.pc + [z3.Not(sing)], undefined, on_model=on_model, inputs=inputs, key=f"C15|{w.func}|{f}|non-finite",
                     sample=f"{w.func}: all three {f} components are defined (no division by zero, log<=0, sqrt<0, leaf outside its domain) on this path")

    paths = explore(run, max_paths=300 if C.tier == "quick" else 3000, on_path=on_path, seeds=C.seed_envs(inputs, n=2))
    C.decisions += sum(len(p.decisions) for p in paths)
    if explore.truncated:
        C.note_inconclusive("path-budget", "path budget hit")
    return C.result()


def _twin(C):
    """sanity: the bare cuboid kernel WITHOUT the wrapper's edge masks must be reported undefined somewhere"""
    from magpylib._src.fields import field_BH_cuboid as M

    obs, dim, pol = symarr("o", (1, 3)), symarr("d", (1, 3)), symarr("p", (1, 3))
    CTX.pre = [toz(dim[0, i]) > 0 for i in range(3)]
    found = [False]

    def run():
        return M.magnet_cuboid_Bfield(observers=obs.copy(), dimensions=dim.copy(), polarizations=pol.copy())

    def on_path(p):
        C.paths += 1
        if p.status != "ok" or found[0]:
            return
        out = p.out
        res = CTX.check(p.pc + [z3.Or(*[z3.Not(out[0, c].d) for c in range(3)])], timeout=20000)
        if res == "sat":
            found[0] = True

    explore(run, max_paths=12, on_path=on_path)
    if found[0]:
        C.obligations.append({"name": "twin.bare-kernel-undefined-somewhere", "status": "unsat", "witness": "sat",
                              "note": "reachability twin: without the wrapper's masks the definedness check does raise an alarm (on cuboid edges)"})
    else:
        C.vacuous.append("definedness tracking did not flag the bare cuboid kernel (expected undefined on edges)")


def _celv(C):
    """the vectorised complete elliptic integral celv(kc, p, c, s): its case split (p <= 0 / p > 0) and everything before the convergence
    loop is straight-line code; for kc != 0 (the callers' precondition) and all real p, c, s no division by zero / root of a negative number
    may occur there.  The loop itself (trip count depends on the values) is cut: np.any() of the loop mask is answered False."""
    from symnum import install
    from magpylib._src.fields import special_cel as SC

    proxy = SC.np

    class _NoLoop:
        def __getattr__(self, name):
            return getattr(proxy, name)

        def any(self, *a, **k):
            return False

    install.patch("magpylib._src.fields.special_cel", "np", _NoLoop())
    kc, p, c, s = (symarr(n, (1,)) for n in ("kc", "p", "c", "s"))
    CTX.pre = [toz(kc[0]) != 0]
    inputs = [kc[0], p[0], c[0], s[0]]

    def run():
        return SC.celv(kc.copy(), p.copy(), c.copy(), s.copy())

    def on_path(pth):
        C.paths += 1
        if pth.status != "ok":
            C.note_inconclusive(f"p{C.paths}", f"aborted: {pth.out}")
            return
        out = np.asarray(pth.out, dtype=object).ravel()[0]
        C.oblige(f"p{C.paths}.celv-preamble.defined", pth.pc, z3.Not(out.d), inputs=inputs, key="C15|celv|non-finite",
                 on_model=lambda env: {"key": "C15|celv|non-finite", "replay": {"wrapper": "celv", "args": {k: float(env.get(k + "_0") or 0.0) for k in ("kc", "p", "c", "s")}}},
                 sample="celv: for kc != 0 and all real p, c, s the case split and the set-up before the convergence loop divide by nothing that can be zero")

    paths = explore(run, max_paths=8, on_path=on_path, seeds=[{"kc_0": 0.5, "p_0": 0.75, "c_0": 1.0, "s_0": -1.0}, {"kc_0": 0.5, "p_0": -0.25, "c_0": 1.0, "s_0": 1.0}])
    C.decisions += sum(len(q.decisions) for q in paths)
    if C.paths < 2:
        C.vacuous.append("celv: the two cases p <= 0 / p > 0 were not both explored")


def replay(spec):
    if spec["wrapper"] == "celv":
        from magpylib._src.fields.special_cel import cel0, celv

        a = spec["args"]
        n = 12  # the public entry point cel() switches to the vectorised routine at 10 rows
        with np.errstate(all="ignore"):
            out = celv(*(np.full(n, a[k], dtype=float) for k in ("kc", "p", "c", "s")))
            ref = cel0(a["kc"], a["p"], a["c"], a["s"])
        bad = not np.all(np.isfinite(out)) or (np.isfinite(ref) and abs(out[0] - ref) > 1e-6 * max(abs(ref), 1e-300))
        return bool(bad), f"celv(kc={a['kc']}, p={a['p']}, c={a['c']}, s={a['s']}) on {n} equal rows = {out[0]!r}, scalar cel0 = {ref!r}"
    w = WRAPPERS[spec["wrapper"]]
    try:
        out = np.asarray(w.call_float(spec["field"], spec["args"]), dtype=float)
    except Exception as e:  # noqa
        return True, f"{w.func}(field={spec['field']}, {spec['args']}) raised {type(e).__name__}: {str(e)[:120]}"
    bad = not np.all(np.isfinite(out))
    if not bad and spec["wrapper"] in ("cylseg", "cylseg_internal") and not spec.get("_refined"):
        # the symbolic domain of the cut kernel is "within a few ulp of a corner": look at the ulp-neighbours of the model's observer as well
        o = np.array(spec["args"]["observers"], dtype=float)
        r, phi = np.hypot(o[0, 0], o[0, 1]), np.arctan2(o[0, 1], o[0, 0])
        for k in range(-4, 5):
            ph = phi
            for _ in range(abs(k)):
                ph = np.nextafter(ph, np.inf if k > 0 else -np.inf)
            o2 = [[float(r * np.cos(ph)), float(r * np.sin(ph)), float(o[0, 2])]]
            ok, detail = replay(dict(spec, args=dict(spec["args"], observers=o2), _refined=True))
            if ok:
                return ok, detail
    return bad, f"{w.func}(field={spec['field']}, {spec['args']}) = {out.tolist()}"
