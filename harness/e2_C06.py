"""C06  each output element depends only on its own source, path index and observer.

(b) row independence of every BHJM_* wrapper: rows [a,b] in one call vs. row [a] alone vs. rows [b,a]; on every
    feasible path the value of row a is the same term for all reals.
(a) getBH_level2 shape/element identity with uninterpreted per-source field functions (cases 'level2-*').
"""
import importlib

import numpy as np
import z3

from symnum import CTX, S, install, oarr, symarr, toz, explore
from .common import Case, neq_any, rel_close
from .wrappers import WRAPPERS, apply_cuts, tetra_mesh, UNIT_TETRA
from . import level2 as L2

PROPERTY = "C06"
FUNCTIONS = [w.qual() for w in WRAPPERS.values()] + [
    "magpylib._src.fields.field_BH_polyline:current_vertices_field",
    "magpylib._src.fields.field_wrap_BH:getBH_level2",
    "magpylib._src.fields.field_wrap_BH:getBH_level1",
    "magpylib._src.fields.field_wrap_BH:get_src_dict",
    "magpylib._src.fields.field_wrap_BH:tile_group_property",
    "magpylib._src.input_checks:check_format_input_observers",
    "magpylib._src.utility:format_src_inputs",
    "magpylib._src.utility:check_static_sensor_orient",
]
BOUNDS = [
    "kernel rows per call: 2 (row a with row b, row a alone, rows swapped); all real values",
    "cylseg_internal with both rows full-angle: quick tier fixes inner radius of row 1 to 0",
    "tetrahedron vertices / polyline endpoints per row from fixed rational lists (two different entries per batch)",
    "level2: source lists from a committed list (1-3 sources incl. duplicates, two classes, unequal path lengths 1..3), 1-2 sensors, "
    "pixel layouts from {None,(3,),(2,3)}, squeeze in {False,True}",
]
CUTS = [
    "leaf kernels cel/ellipe/ellipk/cel_iter/segH/triB uninterpreted (same applications on both sides)",
    "level2 cases: every source's local field function is an uninterpreted vector function of (field, local observer)",
    "scipy Rotation replaced by the unit-quaternion model SymRot",
]
ASSUMPTIONS = [
    "real arithmetic semantics; unit norm of all input quaternions",
]
NOT_DECIDED = [
    "exact row independence of the iterative elliptic loops (cel_iterv iterates all rows until the slowest converges)",
    "BHJM_magnet_trimesh: only meshes with equal face counts from a fixed list (two tetrahedra); ragged face counts not run",
]

FIELDS = "BHJM"


def cases(tier, seed):
    out = []
    for name in WRAPPERS:
        if name == "polyline":
            out.append({"id": "rows-polyline", "kind": "rows", "wrapper": name, "weight": 4,
                        "fixed": {"segment_start": [(0, 0, 0), (1, -1, 0)], "segment_end": [(1, 0, 0), (3, 0, 2)]}})
            continue
        if name == "tetra":
            out.append({"id": "rows-tetra", "kind": "rows", "wrapper": name, "weight": 4,
                        "fixed": {"vertices": [[(0, 0, 0), (1, 0, 0), (0, 1, 0), (0, 0, 1)], [(0, 0, 0), (0, 2, 0), (1, 0, 0), (0, 0, 1)]]}})
            continue
        if name == "trimesh":
            # two different meshes with equal face count in one call (the equal-mesh grouping loop), and two equal ones
            A_, B_ = tetra_mesh(UNIT_TETRA).tolist(), tetra_mesh(UNIT_TETRA, shift=(3, 0, 0), scale=2.0).tolist()
            out.append({"id": "rows-trimesh-different", "kind": "rows", "wrapper": name, "weight": 6, "fixed": {"mesh": [A_, B_]}})
            out.append({"id": "rows-trimesh-equal", "kind": "rows", "wrapper": name, "weight": 6, "fixed": {"mesh": [A_, A_]}})
            continue
        if name in ("cuboid", "cylinder", "cylseg_internal"):
            # split the input space by the signs of the x-coordinates of both observers (4 disjoint, jointly exhaustive parts)
            for k in range(4):
                out.append({"id": f"rows-{name}-part{k}", "kind": "rows", "wrapper": name, "weight": 8, "split": k})
            continue
        out.append({"id": f"rows-{name}", "kind": "rows", "wrapper": name, "weight": 2})
    out.append({"id": "rows-polyline-vertices-equal", "kind": "vertices", "which": "equal", "weight": 9})
    out.append({"id": "rows-polyline-vertices-ragged", "kind": "vertices", "which": "ragged", "weight": 9})
    for c in L2.c06_cases(tier):
        out.append(c)
    return out


def run_case(case, info):
    C = Case(case, info)
    if case["kind"] == "rows":
        _rows_case(C)
    elif case["kind"] == "vertices":
        _vertices_case(C)
    else:
        L2.c06_run(C)
    return C.result()


def _rows_case(C):
    case = C.case
    name = case["wrapper"]
    w = WRAPPERS[name]
    apply_cuts(w.cuts)
    fn = w.fn()
    A = w.sym_args(2)
    for k, v in case.get("fixed", {}).items():
        A[k] = oarr(np.array(v, dtype=float))
    CTX.pre = w.pre_all(A)
    if "split" in case:
        k = case["split"]
        if name == "cylseg_internal":
            # split by full-angle (routed to the Cylinder kernel) vs. proper segment, per row
            d0 = toz(A["dimension"][0, 4]) - toz(A["dimension"][0, 3])
            d1 = toz(A["dimension"][1, 4]) - toz(A["dimension"][1, 3])
            CTX.pre += [d0 < 360 if k & 1 else d0 >= 360, d1 < 360 if k & 2 else d1 >= 360]
            if k == 0 and C.tier == "quick":
                # both rows full-angle: quick tier takes a solid second row (inner radius 0); thorough is unrestricted
                CTX.pre += [toz(A["dimension"][1, 0]) == 0]
        else:
            x0, x1 = toz(A["observers"][0, 0]), toz(A["observers"][1, 0])
            CTX.pre += [x0 < 0 if k & 1 else x0 >= 0, x1 < 0 if k & 2 else x1 >= 0]
    inputs = w.inputs(A)
    fields = FIELDS if (C.tier == "thorough" or name not in ("cylinder", "cylseg_internal")) else "BJ"

    def sub(rows):
        return {k: v[rows].copy() for k, v in A.items()}

    def run():
        out = {}
        for f in fields:
            out[f] = (
                fn(field=f, **sub([0, 1]), **w.extra_kw),
                fn(field=f, **sub([0]), **w.extra_kw),
                fn(field=f, **sub([1, 0]), **w.extra_kw),
            )
        return out

    def on_path(p):
        C.paths += 1
        if p.status != "ok":
            C.note_inconclusive(f"p{C.paths}", f"aborted: {p.out}")
            return
        for f in fields:
            both, alone, swapped = p.out[f]

            def on_model(env, f=f):
                fargs = w.env_to_float_args(env, A)
                return {"key": f"C06|{w.func}|row-independence|{f}",
                        "replay": {"kind": "rows", "wrapper": name, "field": f, "args": {k: v.tolist() for k, v in fargs.items()}}}

            viol = z3.Or(neq_any(both[0], alone[0]), neq_any(both[0], swapped[1]), neq_any(both[1], swapped[0]))
            C.oblige(f"p{C.paths}.{f}.rows:batch==alone==swapped", p.pc, viol, on_model=on_model, inputs=inputs,
                     key=f"C06|{w.func}|row-independence|{f}", keep=list(np.asarray(A[w.excitation], dtype=object).ravel()) if w.excitation else (),
                     sample=f"{w.func}(field={f}): row 0 of a 2-row call == the 1-row call == row 1 of the swapped call, for all reals on this path")

    paths = explore(run, max_paths=400 if C.tier == "quick" else 4000, on_path=on_path, seeds=C.seed_envs(inputs, n=2))
    C.decisions += sum(len(p.decisions) for p in paths)
    if explore.truncated:
        C.note_inconclusive("path-budget", "path budget hit; remaining paths not explored")


def _vertices_case(C):
    """current_vertices_field: equal vertex counts (vectorised reshape) and ragged (split) handling vs. single evaluation"""
    from magpylib._src.fields import field_BH_polyline as PL

    V3 = np.array([(0, 0, 0), (1, 0, 0), (1, 2, 0)], dtype=float)
    V3b = np.array([(0, 0, 1), (0, 3, 1), (4, 3, 1)], dtype=float)
    V4 = np.array([(0, 0, 0), (0, 0, 2), (1, 2, 4), (1, 2, 4)], dtype=float)  # with a degenerate last segment
    obs = symarr("o", (2, 3))
    cur = symarr("i", (2,))
    inputs = list(obs.ravel()) + list(cur)
    for tag, verts in (("equal", [V3, V3b]), ("ragged", [V3, V4])):
        if tag != C.case["which"]:
            continue
        if tag == "equal":
            varr = oarr(np.array(verts))
        else:
            varr = np.empty(2, dtype=object)
            for k, v in enumerate(verts):
                varr[k] = oarr(v)

        def run():
            both = PL.current_vertices_field(field="H", observers=obs.copy(), current=cur.copy(), vertices=varr)
            singles = []
            for k in range(2):
                va = oarr(np.array([verts[k]]))
                singles.append(PL.current_vertices_field(field="H", observers=obs[[k]].copy(), current=cur[[k]].copy(), vertices=va))
            return both, singles

        def on_path(p, tag=tag, verts=verts):
            C.paths += 1
            if p.status != "ok":
                C.note_inconclusive(f"{tag}.p{C.paths}", f"aborted: {p.out}")
                return
            both, singles = p.out

            def on_model(env):
                return {"key": f"C06|current_vertices_field|{tag}",
                        "replay": {"kind": "vertices", "vertices": [v.tolist() for v in verts],
                                   "observers": [[env.get(f"o_{r}_{c}", 0.0) for c in range(3)] for r in range(2)],
                                   "current": [env.get(f"i_{r}", 0.0) for r in range(2)]}}

            viol = z3.Or(*[neq_any(np.asarray(both, dtype=object)[k], singles[k][0]) for k in range(2)])
            C.oblige(f"{tag}.p{C.paths}.rows", p.pc, viol, on_model=on_model, key=f"C06|current_vertices_field|{tag}", keep=list(cur),
                     inputs=inputs, sample="current_vertices_field: row k of a 2-instance call == single-instance call")

        CTX.reset([])
        paths = explore(run, max_paths=200, on_path=on_path, seeds=C.seed_envs(inputs, n=2))
        C.decisions += sum(len(p.decisions) for p in paths)


def replay(spec):
    kind = spec["kind"]
    if kind == "rows":
        w = WRAPPERS[spec["wrapper"]]
        f = spec["field"]
        args = {k: np.array(v, dtype=float) for k, v in spec["args"].items()}
        both = np.asarray(w.call_float(f, args))
        alone = np.asarray(w.call_float(f, {k: v[[0]] for k, v in args.items()}))
        sw = np.asarray(w.call_float(f, {k: v[[1, 0]] for k, v in args.items()}))
        bad = not (rel_close(both[0], alone[0], 1e-9) and rel_close(both[0], sw[1], 1e-9) and rel_close(both[1], sw[0], 1e-9))
        if not bad and spec["wrapper"] == "trimesh" and not spec.get("_refined"):
            # the inside test is abstracted in the symbolic run, so the model's observers are arbitrary: refine the candidate with
            # observers at the centroids of the meshes of either row (where the inside decisions of the two meshes differ)
            cents = [np.asarray(m, dtype=float).reshape(-1, 3).mean(axis=0) for m in spec["args"]["mesh"]]
            for c0 in cents:
                for c1 in cents:
                    a2 = dict(spec["args"], observers=[c0.tolist(), c1.tolist()])
                    ok, detail = replay(dict(spec, args=a2, _refined=True))
                    if ok:
                        return ok, detail
        return bad, f"{w.func}(field={f}) args={spec['args']}: batch={both.tolist()} alone={alone.tolist()} swapped={sw.tolist()}"
    if kind == "vertices":
        from magpylib._src.fields import field_BH_polyline as PL

        verts = [np.array(v, dtype=float) for v in spec["vertices"]]
        obs = np.array(spec["observers"], dtype=float)
        cur = np.array(spec["current"], dtype=float)
        if len({len(v) for v in verts}) == 1:
            varr = np.array(verts)
        else:
            varr = np.empty(len(verts), dtype=object)
            for k, v in enumerate(verts):
                varr[k] = v
        both = np.asarray(PL.current_vertices_field(field="H", observers=obs, current=cur, vertices=varr), dtype=float)
        bad = False
        singles = []
        for k in range(len(verts)):
            s = PL.current_vertices_field(field="H", observers=obs[[k]], current=cur[[k]], vertices=np.array([verts[k]]))
            singles.append(np.asarray(s, dtype=float)[0].tolist())
            bad |= not rel_close(both[k], s[0], 1e-9)
        return bad, f"current_vertices_field: batch={both.tolist()} singles={singles}"
    return L2.replay(spec)
