"""C17 (E2 part): numeric validity rules of the geometry setters, atomicity of rejected assignments, faithful storage.

The real setters run with a symbolic vector; the path driver forks on the validity tests, so "accepted" and "rejected" are
paths.  On every path: accepted => not must-reject, rejected => not must-accept (documented predicate, with the boundary
equalities the documentation does not name left as don't-care); after a rejected assignment the attribute is the identical
object as before; after an accepted one it is a NEW array with identical terms.
"""
import numpy as np
import z3

from symnum import CTX, oarr, symarr, toz, explore
from .common import Case, neq_any

PROPERTY = "C17"
FUNCTIONS = [
    "magpylib._src.input_checks:check_format_input_vector",
    "magpylib._src.input_checks:check_format_input_cylinder_segment",
    "magpylib._src.input_checks:check_format_input_vertices",
    "magpylib._src.obj_classes.class_magnet_Cuboid:Cuboid.dimension",
    "magpylib._src.obj_classes.class_magnet_Cylinder:Cylinder.dimension",
    "magpylib._src.obj_classes.class_magnet_CylinderSegment:CylinderSegment.dimension",
    "magpylib._src.obj_classes.class_BaseExcitations:BaseMagnet.polarization",
    "magpylib._src.obj_classes.class_misc_Dipole:Dipole.moment",
]
BOUNDS = ["all real values of Cuboid.dimension (3,), Cylinder.dimension (2,), CylinderSegment.dimension (5,), polarization, moment, Tetrahedron/Triangle vertices contents"]
CUTS = []
ASSUMPTIONS = ["real arithmetic (NaN / inf inputs not modelled)"]
NOT_DECIDED = ["scalar attributes (diameter, current) go through float(): decided by CrossHair in the E1 part only for the sign rule",
               "constructor path (same setters are called from __init__)"]


def _mk():
    import magpylib as m

    return {
        "Cuboid.dimension": (m.magnet.Cuboid(dimension=(1, 2, 3), polarization=(1, 2, 3)), "dimension", "_dimension", 3),
        "Cylinder.dimension": (m.magnet.Cylinder(dimension=(1, 2), polarization=(1, 2, 3)), "dimension", "_dimension", 2),
        "CylinderSegment.dimension": (m.magnet.CylinderSegment(dimension=(1, 2, 1, 0, 90), polarization=(1, 2, 3)), "dimension", "_dimension", 5),
        "Cuboid.polarization": (m.magnet.Cuboid(dimension=(1, 2, 3), polarization=(1, 2, 3)), "polarization", "_polarization", 3),
        "Dipole.moment": (m.misc.Dipole(moment=(1, 2, 3)), "moment", "_moment", 3),
    }


def _mk_all():
    import magpylib as m

    return {
        "Cuboid": m.magnet.Cuboid(dimension=(1, 2, 3), polarization=(1, 2, 3)),
        "Cylinder": m.magnet.Cylinder(dimension=(1, 2), magnetization=(1e6, 2e6, 3e6)),
        "CylinderSegment": m.magnet.CylinderSegment(dimension=(1, 2, 1, 0, 90), polarization=(1, 2, 3)),
        "Sphere": m.magnet.Sphere(diameter=1, polarization=(1, 2, 3)),
        "Tetrahedron": m.magnet.Tetrahedron(vertices=[(0, 0, 0), (1, 0, 0), (0, 1, 0), (0, 0, 1)], polarization=(1, 2, 3)),
        "Triangle": m.misc.Triangle(vertices=[(0, 0, 0), (1, 0, 0), (0, 1, 0)], polarization=(1, 2, 3)),
        "Circle": m.current.Circle(diameter=1, current=2),
        "Polyline": m.current.Polyline(vertices=[(0, 0, 0), (1, 0, 0)], current=2),
        "Dipole": m.misc.Dipole(moment=(1, 2, 3)),
        "Sensor": m.Sensor(pixel=[(0, 0, 0), (1, 0, 0)]),
    }


def _malformed():
    bads = [(1, 2), "abc", [[1, 2, 3]] * 2 + [[1, 2]], [1, 2, 3, 4]]
    out = []
    for label, attrs in (("Cuboid", ("dimension", "polarization", "magnetization", "position")), ("Cylinder", ("dimension", "magnetization", "polarization")),
                         ("CylinderSegment", ("dimension",)), ("Sphere", ("diameter", "polarization")), ("Tetrahedron", ("vertices", "magnetization")),
                         ("Triangle", ("vertices", "polarization")), ("Circle", ("diameter", "current")), ("Polyline", ("vertices", "current")),
                         ("Dipole", ("moment",)), ("Sensor", ("pixel", "position", "handedness"))):
        for attr in attrs:
            for bad in bads:
                if attr in ("diameter", "current") and not isinstance(bad, str):
                    bad = (1, 2)
                if label == "Cylinder" and attr == "dimension" and bad == (1, 2):
                    continue  # a valid Cylinder dimension
                out.append((label, attr, bad))
    # de-duplicate
    seen, res = set(), []
    for x in out:
        k = (x[0], x[1], repr(x[2]))
        if k not in seen:
            seen.add(k)
            res.append(x)
    return res


def _doc(label, v):
    """(must_accept, must_reject) formulas of the documented format"""
    z = [toz(x) for x in v]
    if label in ("Cuboid.dimension", "Cylinder.dimension"):
        return z3.And(*[x > 0 for x in z]), z3.Or(*[x <= 0 for x in z])
    if label == "CylinderSegment.dimension":
        r1, r2, h, p1, p2 = z
        acc = z3.And(r1 >= 0, r1 < r2, h > 0, p1 < p2, p2 - p1 <= 360)
        rej = z3.Or(r1 < 0, r2 <= 0, r1 > r2, h <= 0, p1 > p2, p2 - p1 > 360)
        return acc, rej
    return z3.BoolVal(True), z3.BoolVal(False)


def cases(tier, seed):
    return [{"id": k, "label": k, "weight": 1} for k in _mk()] + [{"id": "none-and-counts", "label": None, "weight": 1}]


def run_case(case, info):
    C = Case(case, info)
    if case["label"] is None:
        _concrete(C)
        return C.result()
    label = case["label"]

    def run():
        obj, attr, priv, n = _mk()[label]
        v = symarr("v", (n,))
        before = getattr(obj, priv)
        from magpylib._src.exceptions import MagpylibBadUserInput

        try:
            setattr(obj, attr, v)
            how = "accepted"
        except MagpylibBadUserInput:
            how = "rejected"
        except Exception as e:  # noqa
            how = f"internal {type(e).__name__}: {e}"
        return obj, priv, v, before, how

    def on_path(p):
        C.paths += 1
        if p.status != "ok":
            C.note_inconclusive(f"p{C.paths}", f"aborted: {p.out}")
            return
        obj, priv, v, before, how = p.out
        acc, rej = _doc(label, v)
        inputs = list(v)

        def mk(kind):
            return lambda env: {"key": f"C17|{label}|{kind}", "replay": {"kind": "setter", "label": label, "value": [env.get(f"v_{i}", 0.0) or 0.0 for i in range(len(v))], "expect": kind}}

        if how == "accepted":
            C.oblige(f"p{C.paths}.accepted=>valid", p.pc, rej, on_model=mk("must-reject"), inputs=inputs,
                     sample=f"{label}: every accepted value satisfies the documented format")
            stored = getattr(obj, priv)
            if stored is v:
                C.obligations.append({"name": f"p{C.paths}.independent-copy", "status": "sat", "note": "stored array is the caller's object"})
                C.candidates.append({"key": f"C17|{label}|aliasing", "replay": {"kind": "setter-alias", "label": label}})
            else:
                C.oblige(f"p{C.paths}.stored==input", p.pc, neq_any(stored, v), on_model=mk("stored-differs"), inputs=inputs)
        elif how == "rejected":
            C.oblige(f"p{C.paths}.rejected=>invalid", p.pc, acc, on_model=mk("must-accept"), inputs=inputs)
            if getattr(obj, priv) is not before:
                C.obligations.append({"name": f"p{C.paths}.unchanged", "status": "sat", "note": "attribute replaced by a rejected assignment"})
                C.oblige(f"p{C.paths}.unchanged-witness", p.pc, z3.BoolVal(True), on_model=mk("changed-by-rejected"), inputs=inputs)
            else:
                C.obligations.append({"name": f"p{C.paths}.unchanged", "status": "unsat", "witness": "sat"})
        else:
            C.obligations.append({"name": f"p{C.paths}.error-type", "status": "sat", "note": how})
            C.oblige(f"p{C.paths}.error-witness", p.pc, z3.BoolVal(True), on_model=mk("internal-error"), inputs=inputs)

    paths = explore(run, max_paths=200, on_path=on_path)
    C.decisions += sum(len(p.decisions) for p in paths)
    return C.result()


def _concrete(C):
    """documented None and vertex-count rules (no symbolic dimension: concrete obligations)"""
    import magpylib as m
    from magpylib._src.exceptions import MagpylibBadUserInput

    checks = []
    for label, (obj, attr, priv, n) in _mk().items():
        if attr in ("polarization",):
            continue
        try:
            setattr(obj, attr, None)
            ok = getattr(obj, attr) is None
        except Exception:  # noqa
            ok = False
        checks.append((f"{label}=None accepted and stored as None", ok, {"kind": "none", "label": label}))
    pl = m.current.Polyline(vertices=[(0, 0, 0), (1, 0, 0)], current=1)
    for nverts, want in ((1, False), (2, True), (5, True)):
        try:
            pl.vertices = np.arange(nverts * 3, dtype=float).reshape(nverts, 3)
            got = True
        except MagpylibBadUserInput:
            got = False
        checks.append((f"Polyline.vertices with {nverts} vertices accepted={want}", got == want, {"kind": "polyline-count", "n": nverts, "want": want}))
    # malformed values must raise the input error and leave EVERY attribute of the object the identical object as before
    # (also the dependent ones: polarization <-> magnetization)
    for label, attr, bad in _malformed():
        obj = _mk_all()[label]
        before = {k: v for k, v in vars(obj).items()}
        try:
            setattr(obj, attr, bad)
            how = "accepted"
        except MagpylibBadUserInput:
            how = "rejected"
        except Exception as e:  # noqa
            how = f"internal {type(e).__name__}"
        after = vars(obj)
        changed = [k for k in set(before) | set(after) if after.get(k, None) is not before.get(k, None)]
        ok = how == "rejected" and not changed
        checks.append((f"{label}.{attr} = {bad!r}: rejected and object unchanged", ok, {"kind": "malformed", "label": label, "attr": attr, "bad": repr(bad)}))
    for name, ok, rp in checks:
        C.paths += 1
        if ok:
            C.obligations.append({"name": name, "status": "unsat", "witness": "sat"})
        else:
            C.obligations.append({"name": name, "status": "sat"})
            C.candidates.append({"key": f"C17|{name}", "replay": rp})


def replay(spec):
    import magpylib as m
    from magpylib._src.exceptions import MagpylibBadUserInput

    k = spec["kind"]
    if k == "none":
        obj, attr, priv, n = _mk()[spec["label"]]
        try:
            setattr(obj, attr, None)
            return getattr(obj, attr) is not None, f"{spec['label']} = None stored {getattr(obj, attr)!r}"
        except Exception as e:  # noqa
            return True, f"{spec['label']} = None raised {type(e).__name__}"
    if k == "malformed":
        obj = _mk_all()[spec["label"]]
        bad = eval(spec["bad"])  # noqa: S307  (literal written by this harness)
        before = dict(vars(obj))
        try:
            setattr(obj, spec["attr"], bad)
            how = "accepted"
        except MagpylibBadUserInput:
            how = "rejected"
        except Exception as e:  # noqa
            how = f"internal {type(e).__name__}"
        changed = [kk for kk in set(before) | set(vars(obj)) if vars(obj).get(kk, None) is not before.get(kk, None)]
        return how != "rejected" or bool(changed), f"{spec['label']}.{spec['attr']} = {spec['bad']}: {how}; attributes replaced: {changed or 'none'}"
    if k == "polyline-count":
        pl = m.current.Polyline(vertices=[(0, 0, 0), (1, 0, 0)], current=1)
        try:
            pl.vertices = np.arange(spec["n"] * 3, dtype=float).reshape(spec["n"], 3)
            got = True
        except MagpylibBadUserInput:
            got = False
        return got != spec["want"], f"Polyline.vertices with {spec['n']} vertices: accepted={got}, documented={spec['want']}"
    obj, attr, priv, n = _mk()[spec["label"]]
    if k == "setter-alias":
        v = np.arange(1, n + 1, dtype=float)
        if n == 5:
            v = np.array([1, 2, 1, 0, 90.0])
        setattr(obj, attr, v)
        return getattr(obj, priv) is v, f"{spec['label']}: stored array is the caller's array: {getattr(obj, priv) is v}"
    v = np.array(spec["value"], dtype=float)
    before = getattr(obj, priv)
    try:
        setattr(obj, attr, v)
        how = "accepted"
    except MagpylibBadUserInput:
        how = "rejected"
    except Exception as e:  # noqa
        how = f"internal {type(e).__name__}"
    exp = spec["expect"]
    desc = f"{spec['label']} = {v.tolist()} was {how}"
    if exp == "must-reject":
        return how == "accepted", desc + " although the documented format forbids it"
    if exp == "must-accept":
        return how == "rejected", desc + " although it satisfies the documented format"
    if exp == "stored-differs":
        return how == "accepted" and not np.array_equal(getattr(obj, priv), v), desc + f"; stored {getattr(obj, priv)}"
    if exp == "changed-by-rejected":
        return how == "rejected" and getattr(obj, priv) is not before, desc + "; attribute replaced"
    if exp == "internal-error":
        return how.startswith("internal"), desc
    return False, desc
