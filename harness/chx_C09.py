"""CrossHair harness functions for C09 (path semantics): integer padding arithmetic over unbounded ints.
Reference model written from the documented rule, independently of the code."""
from magpylib._src.obj_classes.class_BaseTransform import path_padding_param
from magpylib._src.obj_classes.class_BaseGeo import pad_slice_path
from magpylib._src.input_checks import check_start_type
from magpylib._src.exceptions import MagpylibBadUserInput


def _ref(lenop: int, lenip: int, start: int):
    s = lenop + start if start < 0 else start
    pb = max(0, -s)
    s = max(0, s)
    pe = max(0, s + lenip - (lenop + pb))
    return pb, pe, s


def h_padding_int(scalar_input: bool, lenop: int, lenip: int, start: int) -> bool:
    """
    pre: lenop >= 1 and lenip >= 1
    pre: (not scalar_input) or lenip == 1
    post: _
    """
    pad, s = path_padding_param(scalar_input, lenop, lenip, start)
    pb, pe = pad if pad else (0, 0)
    rb, re_, rs = _ref(lenop, lenip, start)
    new_len = lenop + pb + pe
    return (pb, pe, s) == (rb, re_, rs) and 0 <= s and s + lenip <= new_len and (bool(pad) == (pb + pe > 0))


def h_padding_auto(scalar_input: bool, lenop: int, lenip: int) -> bool:
    """
    pre: lenop >= 1 and lenip >= 1
    pre: (not scalar_input) or lenip == 1
    post: _
    """
    pad, s = path_padding_param(scalar_input, lenop, lenip, "auto")
    if scalar_input:
        return s == 0 and not pad
    return s == lenop and tuple(pad) == (0, lenip)


def h_padding_covers_input(scalar_input: bool, lenop: int, lenip: int, start: int) -> bool:
    """
    pre: lenop >= 1 and lenip >= 1
    pre: (not scalar_input) or lenip == 1
    post: _
    """
    # documented: negative start counts from the end; the path is edge-padded wherever the input reaches beyond it, and never more
    pad, s = path_padding_param(scalar_input, lenop, lenip, start)
    pb, pe = pad if pad else (0, 0)
    intended = lenop + start if start < 0 else start  # index of the first touched entry in old-path coordinates
    first_new = s - pb  # old-path coordinate of new index s
    minimal = (pb == max(0, -intended)) and (pe == max(0, intended + lenip - lenop) if intended >= 0 else pe == max(0, lenip - pb - lenop))
    return first_new == intended and minimal


def twin_padding_both_sides(scalar_input: bool, lenop: int, lenip: int, start: int) -> bool:
    """
    pre: lenop >= 1 and lenip >= 1
    pre: (not scalar_input) or lenip == 1
    post: _
    """
    pad, s = path_padding_param(scalar_input, lenop, lenip, start)
    return not (pad and pad[0] > 0 and pad[1] > 0)


class _P:
    """stand-in path exposing len() and slicing bookkeeping only"""

    def __init__(self, n: int):
        self.n = n

    def __len__(self):
        return self.n


def h_start_type(start: int) -> bool:
    """
    post: _
    """
    try:
        check_start_type(start)
        return True
    except MagpylibBadUserInput:
        return False
