"""Runs the cases of a property's harness modules in parallel worker processes, replays candidate counterexamples on
the plain library in the main process, applies the known-findings list, prints the verdict and writes the evidence."""
import hashlib
import importlib
import inspect
import json
import multiprocessing as mp
import os
import signal
import sys
import time
import traceback

ROOT = os.path.dirname(os.path.dirname(os.path.abspath(__file__)))
KNOWN = os.path.join(ROOT, "known_findings.json")


class CaseTimeout(BaseException):
    pass


def load_known(pid):
    try:
        data = json.load(open(KNOWN))
    except FileNotFoundError:
        return []
    return [e for e in data.get("findings", []) if e.get("property") == pid]


def _alarm(signum, frame):
    raise CaseTimeout()


def _worker(job):
    modname, case, tier, seed, active = job
    t0 = time.time()
    res = {"case": case.get("id", "?"), "harness": modname}
    budget = case.get("budget", 240 if tier == "quick" else 2400)
    try:
        signal.signal(signal.SIGALRM, _alarm)
        # repeating: an exception raised by the handler while a z3 object's __del__ runs is swallowed by the interpreter, so fire again
        signal.setitimer(signal.ITIMER_REAL, budget, 3.0)
        mod = importlib.import_module(modname)
        out = mod.run_case(case, {"tier": tier, "seed": seed, "known": set(active)})
        res.update(out)
    except CaseTimeout:
        signal.setitimer(signal.ITIMER_REAL, 0)
        signal.signal(signal.SIGALRM, signal.SIG_IGN)
        res["timeout"] = True
        try:  # keep what the case had established before the budget ran out
            import harness.common as hc

            if hc.CURRENT is not None and hc.CURRENT.case is case:
                res.update(hc.CURRENT.result())
        except BaseException:
            pass
    except Exception:
        res["error"] = traceback.format_exc()[-1500:]
    finally:
        signal.setitimer(signal.ITIMER_REAL, 0)
    res["wall_s"] = round(time.time() - t0, 2)
    return res


def _src_hash(qualname):
    """module:function -> short hash of its current source in /repo"""
    try:
        mn, fn = qualname.split(":")
        mod = importlib.import_module(mn)
        obj = mod
        for part in fn.split("."):
            obj = getattr(obj, part)
        if isinstance(obj, property):
            obj = obj.fset or obj.fget
        src = inspect.getsource(obj)
        return hashlib.sha1(src.encode()).hexdigest()[:12]
    except Exception as e:  # noqa
        return f"unavailable({type(e).__name__})"


def run_check(pid, modnames, tier, seed, jobs, only=None, verbose=False):
    t0 = time.time()
    known = load_known(pid)
    active = sorted(e["id"] for e in known if e.get("status") == "known")
    known_by_id = {e["id"]: e for e in known}

    jobs_list = []
    mods = {}
    meta = {"functions": [], "bounds": [], "cuts": [], "assumptions": [], "not_decided": []}
    for mn in modnames:
        mod = importlib.import_module(mn)
        mods[mn] = mod
        for k in meta:
            meta[k].extend(getattr(mod, k.upper(), []))
        for case in mod.cases(tier, seed):
            if only and only not in case.get("id", ""):
                continue
            jobs_list.append((mn, case, tier, seed, active))
    # longest first
    jobs_list.sort(key=lambda j: -j[1].get("weight", 1))

    results = []
    deadline = t0 + float(os.environ.get("VF_DEADLINE", 1500 if tier == "quick" else 6 * 3600))
    ctx = mp.get_context("fork")
    nproc = max(1, min(jobs, len(jobs_list)))
    pool = ctx.Pool(nproc, maxtasksperchild=1)
    try:
        it = pool.imap_unordered(_worker, jobs_list)
        pending = len(jobs_list)
        while pending:
            try:
                r = it.next(timeout=max(1.0, deadline - time.time()))
            except mp.TimeoutError:
                break
            pending -= 1
            results.append(r)
            if verbose:
                print(
                    f"  [{len(results)}/{len(jobs_list)}] {r['case']} {r.get('wall_s')}s "
                    f"obl={len(r.get('obligations', []))} cand={len(r.get('candidates', []))} "
                    f"{'TIMEOUT' if r.get('timeout') else ''}{'ERROR' if r.get('error') else ''}",
                    flush=True,
                )
                if r.get("error"):
                    print(r["error"])
    finally:
        pool.terminate()
        pool.join()
    done_ids = {r["case"] for r in results}
    not_run = [j[1]["id"] for j in jobs_list if j[1]["id"] not in done_ids]

    # ---------------------------------------------------------------- aggregate
    obligations = []
    candidates = []
    coverage = {}
    stats = {"queries": 0, "solver_time_s": {}, "results": {}}
    paths = decisions = validated = 0
    xcheck = {}
    errors = []
    timeouts = []
    samples = []
    vacuous = []
    for r in results:
        if r.get("error"):
            errors.append({"case": r["case"], "error": r["error"][-600:]})
        if r.get("timeout"):
            timeouts.append(r["case"])
        for o in r.get("obligations", []):
            o = dict(o)
            o["case"] = r["case"]
            obligations.append(o)
        for c in r.get("candidates", []):
            c = dict(c)
            c["case"] = r["case"]
            c["harness"] = r["harness"]
            candidates.append(c)
        for site, vals in r.get("coverage", {}).items():
            coverage.setdefault(site, set()).update(vals)
        st = r.get("stats", {})
        stats["queries"] += st.get("queries", 0)
        for k, v in st.get("solver_time_s", {}).items():
            stats["solver_time_s"][k] = round(stats["solver_time_s"].get(k, 0) + v, 3)
        for k, v in st.get("results", {}).items():
            stats["results"][k] = stats["results"].get(k, 0) + v
        for k, v in r.get("xcheck", {}).items():
            if k != "limit":
                xcheck[k] = xcheck.get(k, 0) + v
        paths += r.get("paths", 0)
        decisions += r.get("decisions", 0)
        validated += r.get("validated", 0)
        samples.extend(r.get("samples", [])[:2])
        vacuous.extend([f"{r['case']}: {v}" for v in r.get("vacuous", [])])

    # ---------------------------------------------------------------- replay candidates on the plain library
    violations = []
    known_hits = {}
    not_reproduced = []
    replay_dir = os.path.join(ROOT, "replays", pid)
    for c in candidates:
        spec = dict(c["replay"])
        spec.setdefault("property", pid)
        spec.setdefault("harness", c["harness"])
        spec.setdefault("key", c.get("key"))
        try:
            ok, detail = mods[c["harness"]].replay(spec)
        except Exception:
            ok, detail = False, "replay raised: " + traceback.format_exc()[-400:]
        c["reproduced"] = ok
        c["detail"] = detail
        if not ok:
            not_reproduced.append({"case": c["case"], "key": c.get("key"), "detail": detail[:300]})
            if verbose:
                print(f"  candidate not reproduced: case={c['case']} key={c.get('key')} spec={json.dumps(c['replay'], default=str)[:600]} :: {detail[:300]}")
            continue
        kf = c.get("known_id")
        if kf and kf in active:
            known_hits.setdefault(kf, []).append(c)
            continue
        os.makedirs(replay_dir, exist_ok=True)
        h = hashlib.sha1(json.dumps(spec, sort_keys=True, default=str).encode()).hexdigest()[:12]
        path = os.path.join(replay_dir, f"{h}.json")
        spec["detail"] = detail
        with open(path, "w") as f:
            json.dump(spec, f, indent=1, default=str)
        violations.append({"key": c.get("key"), "case": c["case"], "replay": path, "detail": detail[:300]})

    for kf, cs in known_hits.items():
        e = known_by_id[kf]
        print(f"KNOWN-FINDING: property={pid} {kf}: {e.get('what', '')} [{len(cs)} reproduced witness(es), e.g. {cs[0]['detail'][:160]}]")
    seen = set()
    for v in violations:
        if v["key"] in seen:
            continue
        seen.add(v["key"])
        print(f"VIOLATION property={pid} replay={v['replay']}")
        print(f"  key={v['key']} case={v['case']} :: {v['detail']}")

    n_obl = len(obligations)
    discharged = [o for o in obligations if o.get("status") == "unsat"]
    inconclusive = [o for o in obligations if o.get("status") not in ("unsat", "sat")]
    nontrivial = {o["case"] + "|" + o["name"] for o in discharged if o.get("witness", "sat") == "sat"}
    wall = round(time.time() - t0, 1)

    ev = {
        "property_id": pid,
        "tier": tier,
        "seed": seed,
        "level": getattr(mods[modnames[0]], "LEVEL", "model_checking"),
        "coverage": {
            "states": max(paths, 1),
            "transitions": max(decisions, 1),
            "traces_validated_against_impl": validated + len([c for c in candidates if c.get("reproduced")]),
            "samples": samples[:12] or [{"note": "no sample recorded"}],
            "obligations": n_obl,
            "discharged": len(discharged),
            "inconclusive": len(inconclusive),
            "counterexample_candidates": len(candidates),
            "candidates_not_reproduced_in_doubles": not_reproduced[:20],
            "evaluations": max(n_obl, 1),
            "distinct_nontrivial": len(nontrivial),
            "rule": "one evaluation = one solver obligation (path condition AND precondition AND negated property) generated by "
            "symbolically executing the real functions; distinct = distinct (case, obligation name); non-trivial = discharged "
            "(unsat) AND its antecedent has a sat witness (not vacuous)",
            "explanation": "states = feasible symbolic paths through the real code; transitions = branch decisions taken (each "
            "decided by a solver feasibility query); traces_validated_against_impl = concrete inputs pushed through "
            "the symbolic encoding and compared with the unpatched library, plus replayed counterexamples",
            "functions_encoded": [{"function": f, "source_sha1": _src_hash(f)} for f in dict.fromkeys(meta["functions"])],
            "bounds": meta["bounds"],
            "cuts_and_stubs": meta["cuts"],
            "not_decided": meta["not_decided"],
            "solver": stats,
            "second_solver_cross_check": {"solver": "cvc5 1.4 (python wheel) on the SMT-LIB2 dump incl. definitions", "sampled_unsat_obligations": xcheck.get("done", 0),
                                          "cvc5_unsat": xcheck.get("unsat", 0), "cvc5_unknown_or_timeout": xcheck.get("unknown", 0) + xcheck.get("unavailable", 0),
                                          "cvc5_sat_DISAGREEMENT": xcheck.get("sat", 0)},
            "branch_coverage": {k: sorted(v) for k, v in sorted(coverage.items())},
            "cases": len(jobs_list),
            "cases_completed": len(results),
            "cases_not_run_budget": not_run,
            "cases_timeout": timeouts,
            "case_errors": errors[:10],
            "inconclusive_obligations": [
                {"case": o["case"], "name": o["name"], "status": o.get("status"), "note": o.get("note", "")} for o in inconclusive[:40]
            ],
            "known_findings_reported": sorted(known_hits),
            "violations": violations[:10],
            "vacuity_failures": vacuous,
            "exhaustive": False,
            "checker_cmd": f"./vf check {pid} --tier {tier}",
            "trusted_base": ["z3 4.x/5.1 (SMT core + nlsat)", "CrossHair 0.0.110 (E1 harnesses)", "symnum proxies (validated concretely each run)", "NumPy object-array data movement"],
        },
        "assumptions": meta["assumptions"],
        "wall_s": wall,
        "violations": len(violations),
    }
    if not only:
        # runs against a scratch worktree (evaluation of seeded changes) must not overwrite the evidence of the real tree
        evdir = os.path.join(ROOT, ".seed_evidence" if os.environ.get("VF_REPO") else "evidence")
        os.makedirs(evdir, exist_ok=True)
        with open(os.path.join(evdir, f"{pid}.json"), "w") as f:
            json.dump(ev, f, indent=1, default=str)

    print(
        f"vf: {pid} tier={tier} cases={len(results)}/{len(jobs_list)} paths={paths} obligations={n_obl} "
        f"discharged={len(discharged)} inconclusive={len(inconclusive)} candidates={len(candidates)} "
        f"known={len(known_hits)} violations={len(violations)} errors={len(errors)} timeouts={len(timeouts)} wall={wall}s"
    )
    if violations:
        return 1
    if vacuous:
        print("vf: HARNESS-ERROR vacuous harness: " + "; ".join(vacuous[:5]), file=sys.stderr)
        return 3
    if errors and len(errors) == len(results):
        print("vf: HARNESS-ERROR every case failed: " + errors[0]["error"][-300:], file=sys.stderr)
        return 3
    if errors:
        print(f"vf: warning: {len(errors)} case(s) raised inside the harness (listed as inconclusive): {errors[0]['error'][-200:]}", file=sys.stderr)
    return 0
