"""vf command line: check / replay / list."""
import argparse
import importlib
import json
import os
import sys
import time

from . import runner

HARNESS = {
    # property id -> list of harness modules (E2 = SymNum, E1 = CrossHair)
    "C01": ["harness.e2_C01"],
    "C02": ["harness.e2_C02"],
    "C03": ["harness.e2_C03"],
    "C04": ["harness.e2_C04"],
    "C05": ["harness.e2_C05"],
    "C06": ["harness.e2_C06"],
    "C07": ["harness.e2_C07"],
    "C08": ["harness.e2_C08"],
    "C09": ["harness.ch_C09", "harness.e2_C09"],
    "C10": ["harness.e2_C10"],
    "C11": ["harness.ch_C11"],
    "C12": ["harness.e2_C12"],
    "C13": ["harness.e2_C13"],
    "C15": ["harness.e2_C15"],
    "C16": ["harness.e2_C16"],
    "C17": ["harness.ch_C17", "harness.e2_C17"],
    "C19": ["harness.e2_C19", "harness.ch_C19"],
    "C20": ["harness.ch_C20"],
}


def main(argv=None):
    ap = argparse.ArgumentParser(prog="vf")
    sub = ap.add_subparsers(dest="cmd", required=True)
    sub.add_parser("setup")
    sub.add_parser("list")
    c = sub.add_parser("check")
    c.add_argument("pid")
    c.add_argument("--tier", default=os.environ.get("VERIF_TIER", "quick"), choices=["quick", "thorough"])
    c.add_argument("--only", default=None, help="substring filter on case ids (debugging; evidence not written)")
    c.add_argument("--jobs", type=int, default=int(os.environ.get("VF_JOBS", "16")))
    c.add_argument("-v", action="store_true")
    r = sub.add_parser("replay")
    r.add_argument("path")
    a = ap.parse_args(argv)

    if a.cmd == "setup":
        import z3

        print("vf: environment ready, z3", z3.get_version_string())
        return 0
    if a.cmd == "list":
        for k, v in HARNESS.items():
            print(k, " ".join(v))
        return 0
    if a.cmd == "replay":
        spec = json.load(open(a.path))
        mod = importlib.import_module(spec["harness"])
        ok, detail = mod.replay(spec)
        print(("REPRODUCED " if ok else "NOT-REPRODUCED ") + detail)
        return 1 if ok else 0
    if a.cmd == "check":
        seed = int(os.environ.get("VERIF_SEED", "0") or 0)
        mods = HARNESS.get(a.pid)
        if not mods:
            print(f"vf: no check for {a.pid}", file=sys.stderr)
            return 3
        return runner.run_check(a.pid, mods, a.tier, seed, a.jobs, only=a.only, verbose=a.v)
    return 3


if __name__ == "__main__":
    sys.exit(main())
