"""SymArray (lazy-mask object arrays) and the numpy proxy installed as module-global `np` of the code under test."""
import functools

import numpy as _np
import z3

from .core import CTX, S, SB, Abort, Unsupported, const, dof, tob, toz, AND, sym, T

_NUM = (int, float, _np.integer, _np.floating)


def _concretize_mask(m):
    out = _np.empty(m.shape, dtype=bool)
    for idx in _np.ndindex(*m.shape):
        out[idx] = bool(m[idx])
    return out


def _is_mask(a):
    if not (isinstance(a, _np.ndarray) and a.dtype == object and a.size):
        return False
    e = a.flat[0]
    return isinstance(e, (SB, bool, _np.bool_))


def _fixkey(key):
    if isinstance(key, _np.ndarray) and key.dtype == object:
        if _is_mask(key) or key.size == 0:
            return _concretize_mask(key)
        return key.astype(int)
    if isinstance(key, SB):
        return bool(key)
    if isinstance(key, tuple):
        return tuple(_fixkey(k) for k in key)
    return key


class SymArray(_np.ndarray):
    def astype(self, dtype, *a, **k):
        if self.dtype == object:
            if dtype in (float, _np.float64, "float", "float64", _np.float32, "float32"):  # reals: no rounding (stated assumption)
                return self.copy()
            if dtype in (bool, _np.bool_, "bool"):
                return _concretize_mask(self)
        return super().astype(dtype, *a, **k)

    def __getitem__(self, key):
        return super().__getitem__(_fixkey(key))

    def __setitem__(self, key, val):
        return super().__setitem__(_fixkey(key), val)

    def __lt__(self, o):
        return _np.less(self, o, dtype=object)

    def __le__(self, o):
        return _np.less_equal(self, o, dtype=object)

    def __gt__(self, o):
        return _np.greater(self, o, dtype=object)

    def __ge__(self, o):
        return _np.greater_equal(self, o, dtype=object)

    def __eq__(self, o):
        return _np.equal(self, o, dtype=object)

    def __ne__(self, o):
        return _np.not_equal(self, o, dtype=object)

    __hash__ = None

    def __bool__(self):
        if self.size == 1:
            return bool(self.flat[0])
        raise ValueError("The truth value of an array with more than one element is ambiguous.")

    def any(self, axis=None, **k):
        return NP_INSTANCE.any(self, axis=axis)

    def all(self, axis=None, **k):
        return NP_INSTANCE.all(self, axis=axis)


_KEYARR = ("stack", "concatenate")


class KeyArray(_np.ndarray):
    """concrete array that may be indexed with a symbolic mask (the mask is decided element by element); used by stubs that hand
    concrete index arrays to the code under test"""

    def __getitem__(self, key):
        return super().__getitem__(_fixkey(key))

    def __array_wrap__(self, obj, context=None, return_scalar=False):
        if obj.ndim == 0:
            return obj[()]  # full reductions give scalars, as for plain arrays
        return _np.asarray(obj)


def wrap(a):
    if isinstance(a, _np.ndarray) and a.dtype == object and not isinstance(a, SymArray):
        return a.view(SymArray)
    if isinstance(a, tuple):
        return tuple(wrap(x) for x in a)
    if isinstance(a, list):
        return [wrap(x) for x in a]
    return a


def has_sym(a):
    if isinstance(a, (S, SB)):
        return True
    if isinstance(a, _np.ndarray):
        return a.dtype == object and any(isinstance(e, (S, SB)) for e in a.flat)
    if isinstance(a, (list, tuple)):
        return any(has_sym(x) for x in a)
    return False


def _isobj(a):
    return isinstance(a, _np.ndarray) and a.dtype == object


class _CClass:
    def __getitem__(self, key):
        return fix(wrap(_np.c_[key]))


def fix(a):
    """object array with S inside: make every numeric element an S"""
    if isinstance(a, _np.ndarray) and a.dtype == object and a.size:
        flat = a.reshape(-1) if a.flags.c_contiguous else None
        if any(isinstance(e, S) for e in a.flat):
            if flat is None:
                a = _np.ascontiguousarray(a)
                flat = a.reshape(-1)
            for i, e in enumerate(flat):
                if isinstance(e, _NUM) and not isinstance(e, (bool, _np.bool_)):
                    flat[i] = const(e)
        return a.view(SymArray)
    return a


def oarr(a):
    """numeric or mixed array-like -> SymArray of S"""
    a = _np.asarray(a) if not isinstance(a, _np.ndarray) else a
    if a.dtype != object:
        b = _np.empty(a.shape, dtype=object)
        for idx in _np.ndindex(*a.shape):
            b[idx] = const(a[idx])
        return b.view(SymArray)
    b = a.copy()
    for idx in _np.ndindex(*b.shape):
        if not isinstance(b[idx], (S, SB)):
            b[idx] = const(b[idx])
    return b.view(SymArray)


def symarr(name, shape):
    a = _np.empty(shape, dtype=object)
    for idx in _np.ndindex(*shape):
        a[idx] = sym(name + "_" + "_".join(map(str, idx)))
    return a.view(SymArray)


def _lex_lt(r1, r2):
    for x, y in zip(r1, r2):
        if bool(x < y):
            return True
        if not bool(x == y):
            return False
    return False


def _sym_sorted(items, lt):
    """stable insertion sort; `lt` decides (and thereby forks on) each comparison"""
    out = []
    for it in items:
        pos = len(out)
        while pos > 0 and lt(it, out[pos - 1]):
            pos -= 1
        out.insert(pos, it)
    return out


def _full(shape, val):
    a = _np.empty(shape, dtype=object)
    c = const(val)
    for idx in _np.ndindex(*a.shape):
        a[idx] = c
    return a.view(SymArray)


def emap(f, *arrs):
    arrs = _np.broadcast_arrays(*[_np.asarray(a, dtype=object) for a in arrs])
    out = _np.empty(arrs[0].shape, dtype=object)
    for idx in _np.ndindex(*out.shape):
        out[idx] = f(*[a[idx] for a in arrs])
    if out.ndim == 0:
        return out[()]
    return out.view(SymArray)


def zsign(e):
    z = toz(e)
    return S(z3.If(z > 0, z3.RealVal(1), z3.If(z < 0, z3.RealVal(-1), z3.RealVal(0))), dof(e))


def _resolved(a, b):
    """opt-in (CTX.resolve_minmax): is a <= b / a >= b implied by the preconditions and the path condition?  -> 'le', 'ge' or None.
    Replaces an if-then-else term by one of its branches where the other one is infeasible (e.g. s*c1+t vs s*c2+t with s > 0)."""
    if not getattr(CTX, "resolve_minmax", False):
        return None
    za, zb = toz(a), toz(b)
    if CTX.check(list(CTX.pc) + [za > zb], timeout=400) == "unsat":
        return "le"
    if CTX.check(list(CTX.pc) + [za < zb], timeout=400) == "unsat":
        return "ge"
    return None


def zmin(a, b):
    r = _resolved(a, b)
    if r is not None:
        x = a if r == "le" else b
        return S(toz(x), AND(dof(a), dof(b)))
    return S(z3.If(toz(a) <= toz(b), toz(a), toz(b)), AND(dof(a), dof(b)))


def zmax(a, b):
    r = _resolved(a, b)
    if r is not None:
        x = b if r == "le" else a
        return S(toz(x), AND(dof(a), dof(b)))
    return S(z3.If(toz(a) >= toz(b), toz(a), toz(b)), AND(dof(a), dof(b)))


def zwhere(c, a, b):
    if isinstance(c, (bool, _np.bool_)):
        return a if c else b
    cz = tob(c)
    if isinstance(a, (SB, bool, _np.bool_)) and isinstance(b, (SB, bool, _np.bool_)):
        return SB(z3.If(cz, tob(a), tob(b)))
    return S(z3.If(cz, toz(a), toz(b)), z3.If(cz, dof(a), dof(b)))


def _reduce_axis(f, a, axis, keepdims=False):
    a = _np.asarray(a)
    if axis is None:
        return functools.reduce(f, list(a.flat))
    if isinstance(axis, tuple):
        axes = sorted([ax % a.ndim for ax in axis], reverse=True)
        for ax in axes:
            a = _reduce_axis(f, a, ax, keepdims=keepdims)
        return a
    axis = axis % a.ndim
    moved = _np.moveaxis(a, axis, -1)
    out = _np.empty(moved.shape[:-1], dtype=object)
    for idx in _np.ndindex(*out.shape):
        out[idx] = functools.reduce(f, list(moved[idx]))
    if keepdims:
        out = _np.expand_dims(out, axis)
    return out.view(SymArray)


class _LA:
    def norm(self, x, ord=None, axis=None, keepdims=False):
        x = _np.asarray(x)
        if x.dtype != object:
            return _np.linalg.norm(x, ord=ord, axis=axis, keepdims=keepdims)
        if ord not in (None, 2):
            raise Unsupported("norm ord")
        return wrap(_np.sqrt(_np.sum(x * x, axis=axis, keepdims=keepdims)))

    def det(self, m):
        m = _np.asarray(m)
        if m.dtype != object:
            return _np.linalg.det(m)
        a = (
            m[..., 0, 0] * (m[..., 1, 1] * m[..., 2, 2] - m[..., 1, 2] * m[..., 2, 1])
            - m[..., 0, 1] * (m[..., 1, 0] * m[..., 2, 2] - m[..., 1, 2] * m[..., 2, 0])
            + m[..., 0, 2] * (m[..., 1, 0] * m[..., 2, 1] - m[..., 1, 1] * m[..., 2, 0])
        )
        return wrap(a)

    def inv(self, m):
        m = _np.asarray(m)
        if m.dtype != object:
            return _np.linalg.inv(m)
        d = self.det(m)
        # numpy raises LinAlgError for an exactly singular matrix: a branch of the code under test, decided like any other
        for di in _np.asarray(d, dtype=object).ravel():
            if bool(di == 0):
                raise _np.linalg.LinAlgError("Singular matrix")
        out = _np.empty(m.shape, dtype=object)
        for i in range(3):
            for j in range(3):
                r = [k for k in range(3) if k != j]
                c = [k for k in range(3) if k != i]
                minor = m[..., r[0], c[0]] * m[..., r[1], c[1]] - m[..., r[0], c[1]] * m[..., r[1], c[0]]
                out[..., i, j] = ((-1) ** (i + j)) * minor / d
        return wrap(out)

    def __getattr__(self, name):
        return getattr(_np.linalg, name)


class _NullCtx:
    def __enter__(self):
        return self

    def __exit__(self, *a):
        return False


class NP:
    """stands in for the numpy module inside the modules under test"""

    linalg = _LA()
    ndarray = _np.ndarray
    pi = _np.pi
    inf = _np.inf
    nan = _np.nan
    newaxis = None
    float64 = _np.float64
    c_ = _CClass()

    def __getattr__(self, name):
        v = getattr(_np, name)
        if callable(v) and not isinstance(v, type):

            def f(*a, **k):
                r = v(*a, **k)
                if name in _KEYARR and type(r) is _np.ndarray and r.dtype.kind == "i" and r.ndim:
                    return r.view(KeyArray)  # index arrays assembled by the code under test may later be filtered by a symbolic mask
                return fix(wrap(r)) if name in _FIX else wrap(r)

            f.__name__ = name
            return f
        return v

    def errstate(self, **k):
        return _np.errstate(**k)

    # --- allocation
    def zeros_like(self, a, dtype=None, **k):
        if dtype in (bool, int, _np.bool_, "bool", "int"):
            return _np.zeros(_np.shape(a), dtype=dtype)
        return _full(_np.shape(a), 0.0)

    def ones_like(self, a, dtype=None, **k):
        if dtype in (bool, int, _np.bool_, "bool", "int"):
            return _np.ones(_np.shape(a), dtype=dtype)
        return _full(_np.shape(a), 1.0)

    def zeros(self, shape, dtype=None, **k):
        if dtype in (bool, int, _np.bool_, "bool", "int"):
            return _np.zeros(shape, dtype=dtype)
        return _full(shape, 0.0)

    def ones(self, shape, dtype=None, **k):
        if dtype in (bool, int, _np.bool_, "bool", "int"):
            return _np.ones(shape, dtype=dtype)
        return _full(shape, 1.0)

    def empty(self, shape, dtype=None, **k):
        if dtype in (bool, int, _np.bool_, "bool", "int"):
            return _np.empty(shape, dtype=dtype)
        return _full(shape, 0.0)

    def full(self, shape, v, dtype=None, **k):
        if isinstance(v, (bool, _np.bool_)) or dtype in (bool, int):
            return _np.full(shape, v, dtype=dtype, **k)
        if isinstance(v, (S,)):
            a = _np.empty(shape, dtype=object)
            for idx in _np.ndindex(*a.shape):
                a[idx] = v
            return a.view(SymArray)
        return _full(shape, v)

    def copy(self, a, **k):
        return wrap(_np.array(a, copy=True))

    def array(self, a, dtype=None, **k):
        if dtype in (float, _np.float64, "float", "float64"):
            if isinstance(a, _np.ndarray) and a.dtype != object:
                return _np.array(a, dtype=float, **k)
            try:
                o = _np.array(a, dtype=object)
            except Exception:
                return _np.array(a, dtype=float, **k)
            if (
                o.size
                and any(isinstance(e, S) for e in o.flat)
                and all(isinstance(e, (S,) + _NUM) and not isinstance(e, (bool, _np.bool_)) for e in o.flat)
            ):
                r = oarr(o)
                nd = k.get("ndmin", 0)
                while r.ndim < nd:
                    r = r[None]
                return r
            return _np.array(a, dtype=float, **k)
        return fix(wrap(_np.array(a, dtype=dtype, **k)))

    def asarray(self, a, dtype=None, **k):
        if isinstance(a, SymArray) and dtype in (None, float, object):
            return a
        return self.array(a, dtype=dtype, **k)

    # --- element-wise functions defined over terms
    def isclose(self, a, b, rtol=1e-5, atol=1e-8, **k):
        if not (has_sym(a) or has_sym(b) or _isobj(a) or _isobj(b)):
            return _np.isclose(a, b, rtol=rtol, atol=atol, **k)
        return abs(a - b) <= atol + rtol * abs(b)

    def allclose(self, a, b, rtol=1e-5, atol=1e-8, **k):
        if not (has_sym(a) or has_sym(b)):
            return _np.allclose(a, b, rtol=rtol, atol=atol, **k)
        return self.all(self.isclose(a, b, rtol=rtol, atol=atol))

    def isnan(self, a):
        a = _np.asarray(a)
        return _np.zeros(a.shape, dtype=bool) if a.dtype == object else _np.isnan(a)

    def isfinite(self, a):
        a = _np.asarray(a)
        return _np.ones(a.shape, dtype=bool) if a.dtype == object else _np.isfinite(a)

    def nan_to_num(self, a, *args, **k):
        a = _np.asarray(a)
        return wrap(a.copy()) if a.dtype == object else _np.nan_to_num(a, *args, **k)

    def sign(self, a):
        if not has_sym(a):
            return _np.sign(a)
        return emap(zsign, a)

    def where(self, c, *ab):
        if not ab:
            c = _np.asarray(c)
            if c.dtype == object:
                c = _concretize_mask(c)
            return _np.where(c)
        a, b = ab
        if not (has_sym(c) or has_sym(a) or has_sym(b)):
            return _np.where(c, a, b)
        return emap(zwhere, c, a, b)

    def fabs(self, a):
        return wrap(abs(_np.asarray(a)))

    def logical_or(self, a, b):
        return wrap(_np.asarray(a) | _np.asarray(b)) if (has_sym(a) or has_sym(b)) else _np.logical_or(a, b)

    def logical_and(self, a, b):
        return wrap(_np.asarray(a) & _np.asarray(b)) if (has_sym(a) or has_sym(b)) else _np.logical_and(a, b)

    def logical_not(self, a):
        return wrap(~_np.asarray(a)) if has_sym(a) else _np.logical_not(a)

    def deg2rad(self, a):
        return a * (_np.pi / 180) if has_sym(a) else _np.deg2rad(a)

    def round(self, a, decimals=0):
        if not has_sym(a):
            return _np.round(a, decimals)
        raise Unsupported("round on symbolic")

    def mod(self, a, b):
        return wrap(_np.asarray(a) % b) if has_sym(a) else _np.mod(a, b)

    # --- reductions
    def any(self, a, axis=None, **k):
        a = _np.asarray(a)
        if a.dtype == object:
            if axis is None:
                return bool(SB(z3.Or(*[tob(e) for e in a.flat]))) if a.size else False
            return _reduce_axis(lambda x, y: SB(z3.Or(tob(x), tob(y))), a, axis)
        return _np.any(a, axis=axis, **k)

    def all(self, a, axis=None, **k):
        a = _np.asarray(a)
        if a.dtype == object:
            if axis is None:
                return bool(SB(z3.And(*[tob(e) for e in a.flat]))) if a.size else True
            return _reduce_axis(lambda x, y: SB(z3.And(tob(x), tob(y))), a, axis)
        return _np.all(a, axis=axis, **k)

    def min(self, a, axis=None, **k):
        a = _np.asarray(a)
        if a.dtype != object:
            return _np.min(a, axis=axis, **k)
        return _reduce_axis(zmin, a, axis, **k)

    def max(self, a, axis=None, **k):
        a = _np.asarray(a)
        if a.dtype != object:
            return _np.max(a, axis=axis, **k)
        return _reduce_axis(zmax, a, axis, **k)

    amin = min
    amax = max

    def mean(self, a, axis=None, **k):
        a = _np.asarray(a)
        if a.dtype != object:
            return _np.mean(a, axis=axis, **k)
        if axis is None:
            n = a.size
        elif isinstance(axis, tuple):
            n = int(_np.prod([a.shape[ax] for ax in axis]))
        else:
            n = a.shape[axis]
        return wrap(_np.sum(a, axis=axis, **k) / n)

    def median(self, a, *args, **k):
        if has_sym(a):
            raise Unsupported("median on symbolic")
        return _np.median(a, *args, **k)

    def std(self, a, *args, **k):
        if has_sym(a):
            raise Unsupported("std on symbolic")
        return _np.std(a, *args, **k)

    def var(self, a, *args, **k):
        if has_sym(a):
            raise Unsupported("var on symbolic")
        return _np.var(a, *args, **k)

    def unique(self, a, *args, **k):
        if has_sym(a):
            # rows of a 2-d array of terms (axis=0): lexicographic order and equality of rows are solver-decided branches
            if args or k.get("axis") != 0 or _np.ndim(a) != 2 or set(k) - {"axis", "return_counts"}:
                raise Unsupported("unique on symbolic")
            rows = _sym_sorted([tuple(r) for r in _np.asarray(a)], _lex_lt)
            uniq, counts = [], []
            for r in rows:
                if uniq and all(bool(x == y) for x, y in zip(uniq[-1], r)):
                    counts[-1] += 1
                else:
                    uniq.append(r)
                    counts.append(1)
            u = _np.empty((len(uniq), _np.shape(a)[1]), dtype=object)
            for i, r in enumerate(uniq):
                for j, x in enumerate(r):
                    u[i, j] = x
            u = u.view(SymArray)
            return (u, _np.array(counts, dtype=int)) if k.get("return_counts") else u
        return _np.unique(a, *args, **k)

    def sort(self, a, *args, **k):
        if has_sym(a):
            # every comparison is a solver-decided branch
            if args or set(k) - {"axis"}:
                raise Unsupported("sort on symbolic")
            axis = k.get("axis", -1)
            b = _np.moveaxis(_np.array(a, dtype=object), axis, -1)
            out = _np.empty(b.shape, dtype=object)
            for idx in _np.ndindex(*b.shape[:-1]):
                for j, x in enumerate(_sym_sorted(list(b[idx]), lambda x, y: bool(x < y))):
                    out[idx + (j,)] = x
            return _np.moveaxis(out, -1, axis).view(SymArray)
        return _np.sort(a, *args, **k)

    def argsort(self, a, *args, **k):
        if has_sym(a):
            raise Unsupported("argsort on symbolic")
        return _np.argsort(a, *args, **k)

    def einsum(self, spec, *ops):
        if not any(has_sym(o) for o in ops):
            return _np.einsum(spec, *ops)
        ins, out = spec.replace(" ", "").split("->")
        ins = ins.split(",")
        ops = [_np.asarray(o, dtype=object) for o in ops]
        dims = {}
        for s_, o in zip(ins, ops):
            for ch, n in zip(s_, o.shape):
                dims[ch] = n
        res = _np.empty([dims[c] for c in out], dtype=object)
        summed = [c for c in dims if c not in out]
        for oidx in _np.ndindex(*res.shape):
            env = dict(zip(out, oidx))
            acc = None
            for sidx in _np.ndindex(*[dims[c] for c in summed]):
                env.update(zip(summed, sidx))
                term = None
                for s_, o in zip(ins, ops):
                    e = o[tuple(env[c] for c in s_)]
                    term = e if term is None else term * e
                acc = term if acc is None else acc + term
            res[oidx] = acc
        return fix(res.view(SymArray))

    def matmul(self, a, b):
        if not (has_sym(a) or has_sym(b)):
            return _np.matmul(a, b)
        a = _np.asarray(a, dtype=object)
        b = _np.asarray(b, dtype=object)
        return fix(wrap(_np.matmul(a, b)))

    def pad(self, a, pw, mode="constant", **k):
        return wrap(_np.pad(_np.asarray(a), pw, mode, **k))

    def squeeze(self, a, axis=None):
        if isinstance(a, (S, SB)):
            return a
        r = _np.squeeze(a, axis=axis)
        if isinstance(r, _np.ndarray) and r.dtype == object and r.ndim == 0:
            return r  # keep 0-d object array like numpy does
        return wrap(r)


_FIX = {"stack", "concatenate", "vstack", "hstack", "asarray", "array", "column_stack", "tile", "repeat", "append", "insert"}

NP_INSTANCE = NP()


def term_arrays_equal_formula(a, b):
    """formula: some element differs"""
    a = _np.asarray(a, dtype=object).ravel()
    b = _np.asarray(b, dtype=object).ravel()
    assert a.shape == b.shape, (a.shape, b.shape)
    return z3.Or(*[toz(x) != toz(y) for x, y in zip(a, b)])
