"""Install / remove the proxies in the magpylib modules of the running process (never touches /repo)."""
import importlib
import sys
import types

import numpy as _np
import scipy.spatial.transform as _sst

from .arr import NP_INSTANCE, SymArray, emap, has_sym, oarr, wrap
from .core import CTX, S, ufcall, toz
from .rot import SymRot

_saved = []  # (module, name, old)

MODULES = [
    "magpylib._src.utility",
    "magpylib._src.input_checks",
    "magpylib._src.fields.field_wrap_BH",
    "magpylib._src.fields.field_BH_circle",
    "magpylib._src.fields.field_BH_cuboid",
    "magpylib._src.fields.field_BH_cylinder",
    "magpylib._src.fields.field_BH_cylinder_segment",
    "magpylib._src.fields.field_BH_dipole",
    "magpylib._src.fields.field_BH_polyline",
    "magpylib._src.fields.field_BH_sphere",
    "magpylib._src.fields.field_BH_tetrahedron",
    "magpylib._src.fields.field_BH_triangle",
    "magpylib._src.fields.field_BH_triangularmesh",
    "magpylib._src.fields.special_cel",
    "magpylib._src.fields.special_el3",
    "magpylib._src.obj_classes.class_BaseGeo",
    "magpylib._src.obj_classes.class_BaseTransform",
    "magpylib._src.obj_classes.class_BaseExcitations",
    "magpylib._src.obj_classes.class_Collection",
    "magpylib._src.obj_classes.class_Sensor",
    "magpylib._src.obj_classes.class_magnet_TriangularMesh",
    "magpylib._src.obj_classes.class_magnet_Tetrahedron",
    "magpylib._src.obj_classes.class_misc_Triangle",
    "magpylib._src.obj_classes.class_current_Polyline",
    "magpylib._src.display.traces_base",
    "magpylib._src.display.traces_core",
    "magpylib._src.display.traces_utility",
]


def _set(mod, name, new):
    _saved.append((mod, name, getattr(mod, name)))
    setattr(mod, name, new)


def install(extra_modules=()):
    """replace module-global numpy / Rotation / norm by the proxies in all listed magpylib modules"""
    import magpylib  # noqa: F401

    if _saved:
        return
    for mn in list(MODULES) + list(extra_modules):
        try:
            mod = importlib.import_module(mn)
        except Exception:
            continue
        for name, val in list(vars(mod).items()):
            if val is _np:
                _set(mod, name, NP_INSTANCE)
            elif val is _sst.Rotation:
                _set(mod, name, SymRot)
            elif val is _np.linalg.norm:
                _set(mod, name, NP_INSTANCE.linalg.norm)


def uninstall():
    while _saved:
        mod, name, old = _saved.pop()
        setattr(mod, name, old)


def patch(modname, name, new):
    """additional (recorded) replacement, e.g. a leaf-kernel cut"""
    mod = importlib.import_module(modname)
    _set(mod, name, new)
    return mod


def original(modname, name):
    mod = importlib.import_module(modname)
    for m, n, old in _saved:
        if m is mod and n == name:
            return old
    return getattr(mod, name)


# ---------------------------------------------------------------------------- cuts
def elementwise_cut(fname, orig, nargs=None, dom=None):
    """abstract an element-wise array function f(a1..ak)->array as an uninterpreted function per element.
    In concrete mode the registered callable evaluates the real function on scalars."""

    def conc(*a):
        r = orig(*[_np.array([float(x)]) for x in a])
        return float(_np.asarray(r).ravel()[0])

    CTX.concrete_funcs[fname] = conc

    def stub(*args):
        if not any(has_sym(a) for a in args):
            return orig(*args)
        def one(*e):
            e = [x if isinstance(x, S) else S(toz(x)) for x in e]
            return ufcall(fname, e, dom=dom(*[x.z for x in e]) if dom is not None else None)

        return emap(one, *args)

    stub.__name__ = f"cut_{fname}"
    return stub


def row_kernel_cut(fname, orig, argnames, ncomp=3, dom=None):
    """abstract a row-wise kernel  f(**{name: (n,k) arrays}) -> (n,ncomp)  as ncomp uninterpreted functions of the
    flattened row arguments."""

    def mk_conc(c):
        def conc(*a):
            # a is the flat list of row arguments; shapes recorded at first symbolic call
            shapes = stub.shapes
            kw = {}
            pos = 0
            for nm in argnames:
                shp = shapes[nm]
                size = int(_np.prod(shp)) if shp else 1
                kw[nm] = _np.array(a[pos : pos + size], dtype=float).reshape((1,) + tuple(shp))
                pos += size
            return float(_np.asarray(orig(**kw)).reshape(-1)[c])

        return conc

    def stub(*args, **kw):
        if args:
            kw = {**dict(zip(argnames, args)), **kw}
        if not any(has_sym(v) for v in kw.values()):
            return orig(**kw)
        arrs = [oarr(kw[nm]) for nm in argnames]
        n = len(arrs[0])
        stub.shapes = {nm: a.shape[1:] for nm, a in zip(argnames, arrs)}
        out = _np.empty((n, ncomp), dtype=object)
        for i in range(n):
            flat = []
            for a in arrs:
                flat.extend(list(_np.asarray(a[i], dtype=object).ravel()))
            d = dom({nm: _np.asarray(a[i], dtype=object) for nm, a in zip(argnames, arrs)}) if dom is not None else None
            for c in range(ncomp):
                out[i, c] = ufcall(f"{fname}{c}", flat, dom=d)
        return out.view(SymArray)

    stub.shapes = {}
    for c in range(ncomp):
        CTX.concrete_funcs[f"{fname}{c}"] = mk_conc(c)
    stub.__name__ = f"cut_{fname}"
    return stub


def register_concrete(stub_registry):
    """re-register concrete callables after CTX.hard_reset()"""
    CTX.concrete_funcs.update(stub_registry)
