"""SymRot: stand-in for scipy.spatial.transform.Rotation over solver terms (Model Q: unit quaternions x,y,z,w).

Assumption carried by every query that uses it: all *input* quaternions have unit norm (SciPy normalises on
construction; use .unit() to obtain the formulas).  from_rotvec / from_euler / from_matrix / from_mrp return rotations
whose quaternion components are uninterpreted functions of the arguments (unit norm attached as an axiom); in
concrete (concolic) mode they are evaluated with the real SciPy.
"""
import numpy as _np
import z3

from .arr import SymArray, _full, oarr, wrap, has_sym
from .core import CTX, S, const, toz, ufcall


def _qmul(p, q):
    x1, y1, z1, w1 = p[..., 0], p[..., 1], p[..., 2], p[..., 3]
    x2, y2, z2, w2 = q[..., 0], q[..., 1], q[..., 2], q[..., 3]
    return _np.stack(
        [
            w1 * x2 + x1 * w2 + y1 * z2 - z1 * y2,
            w1 * y2 - x1 * z2 + y1 * w2 + z1 * x2,
            w1 * z2 + x1 * y2 - y1 * x2 + z1 * w2,
            w1 * w2 - x1 * x2 - y1 * y2 - z1 * z2,
        ],
        axis=-1,
    )


def _opaque(name, args, concrete):
    """4 uninterpreted components with unit-norm axiom; `concrete(*floats)` -> quaternion for concolic mode"""
    args = [a if isinstance(a, S) else const(a) for a in args]
    comps = []
    for i in range(4):
        fname = f"{name}_q{i}"
        comps.append(ufcall(fname, args))
        CTX.concrete_funcs[fname] = (lambda i: (lambda *v: concrete(*v)[i]))(i)
    zs = [c.z for c in comps]
    ax = zs[0] * zs[0] + zs[1] * zs[1] + zs[2] * zs[2] + zs[3] * zs[3] == 1
    prev = CTX.defs.get(zs[0].get_id())
    if prev is None:
        CTX.defs[zs[0].get_id()] = ax
        for z in zs[1:]:
            # make the axiom reachable from every component
            if z.get_id() not in CTX.defs:
                CTX.defs[z.get_id()] = ax
    return comps


class SymRot:
    def __init__(self, q, single=None):
        q = oarr(q)
        if single is None:
            single = q.ndim == 1
        self.q = q.reshape(-1, 4)
        self.single = single

    # ---- constructors
    @classmethod
    def from_quat(cls, q):
        if isinstance(q, _np.ndarray):
            pass
        else:
            q = _np.array(q, dtype=object if has_sym(q) else float)
        if q.ndim not in (1, 2) or q.shape[-1] != 4:
            raise ValueError(f"Expected `quat` to have shape (4,) or (N, 4), got {q.shape}.")
        return cls(q, q.ndim == 1)

    @classmethod
    def identity(cls, num=None):
        if num is None:
            return cls(_np.array([0, 0, 0, 1.0]), True)
        return cls(_np.tile(_np.array([0, 0, 0, 1.0]), (num, 1)), False)

    @classmethod
    def _from_param(cls, name, rows, single, concrete):
        qs = [_opaque(name, list(r), concrete) for r in rows]
        q = _np.empty((len(qs), 4), dtype=object)
        for i, c in enumerate(qs):
            for j in range(4):
                q[i, j] = c[j]
        return cls(q[0] if single else q, single)

    @classmethod
    def from_rotvec(cls, rotvec, degrees=False):
        from scipy.spatial.transform import Rotation as _R

        v = oarr(rotvec)
        single = v.ndim == 1
        v = v.reshape(-1, 3)
        if degrees:
            v = v * (_np.pi / 180)
        return cls._from_param("rotvec", v, single, lambda *a: _R.from_rotvec(a).as_quat())

    @classmethod
    def from_euler(cls, seq, angles, degrees=False):
        from scipy.spatial.transform import Rotation as _R

        a = oarr(angles)
        n = len(seq)
        if a.ndim == 0:
            single = True
            a = a.reshape(1, 1)
        elif a.ndim == 1:
            if n == 1:
                single = False
                a = a.reshape(-1, 1)
            else:
                single = True
                a = a.reshape(1, n)
        else:
            single = False
        if a.shape[1] != n:
            raise ValueError("Expected `angles` to match seq")
        if degrees:
            a = a * (_np.pi / 180)
        return cls._from_param(f"euler_{seq}", a, single, lambda *x: _R.from_euler(seq, x).as_quat())

    @classmethod
    def from_matrix(cls, matrix):
        from scipy.spatial.transform import Rotation as _R

        m = oarr(matrix)
        single = m.ndim == 2
        if m.shape[-2:] != (3, 3):
            raise ValueError("Expected `matrix` to have shape (3, 3) or (N, 3, 3)")
        m = m.reshape(-1, 9)
        return cls._from_param(
            "matrix", m, single, lambda *x: _R.from_matrix(_np.array(x).reshape(3, 3)).as_quat()
        )

    @classmethod
    def from_mrp(cls, mrp):
        from scipy.spatial.transform import Rotation as _R

        v = oarr(mrp)
        single = v.ndim == 1
        v = v.reshape(-1, 3)
        return cls._from_param("mrp", v, single, lambda *a: _R.from_mrp(a).as_quat())

    # ---- accessors
    def as_quat(self):
        return wrap(self.q[0].copy() if self.single else self.q.copy())

    def __len__(self):
        if self.single:
            raise TypeError("Single rotation has no len().")
        return len(self.q)

    def __getitem__(self, k):
        if self.single:
            raise TypeError("Single rotation is not subscriptable.")
        r = self.q[k]
        return SymRot(r, r.ndim == 1)

    def __iter__(self):
        if self.single:
            raise TypeError("Single rotation is not iterable.")
        for i in range(len(self.q)):
            yield SymRot(self.q[i], True)

    def inv(self):
        q = self.q.copy()
        q[:, :3] = -q[:, :3]
        return SymRot(q[0] if self.single else q, self.single)

    def __mul__(self, o):
        if not isinstance(o, SymRot):
            return NotImplemented
        a, b = self.q, o.q
        if len(a) != len(b) and 1 not in (len(a), len(b)):
            raise ValueError("Expected equal number of rotations in both or a single rotation in either object")
        r = _qmul(a, b)
        s = self.single and o.single
        return SymRot(r[0] if s else r, s)

    def apply(self, v, inverse=False):
        v = oarr(v)
        single_v = v.ndim == 1
        v2 = v.reshape(-1, 3)
        q = self.q
        if len(q) != len(v2) and 1 not in (len(q), len(v2)):
            raise ValueError("Expected equal numbers of rotations and vectors, or a single rotation/vector")
        if inverse:
            q = q.copy()
            q[:, :3] = -q[:, :3]
        zero = _full((len(v2), 1), 0.0)
        vq = _np.concatenate([v2, zero], axis=1)
        qc = q.copy()
        qc[:, :3] = -qc[:, :3]
        r = _qmul(_qmul(q, vq), qc)[..., :3]
        return wrap(r[0]) if (self.single and single_v) else wrap(r)

    def unit(self):
        """formulas: every quaternion of this rotation has unit norm"""
        out = []
        for r in self.q:
            z = [toz(x) for x in r]
            out.append(z[0] * z[0] + z[1] * z[1] + z[2] * z[2] + z[3] * z[3] == 1)
        return out

    def __repr__(self):
        return f"SymRot({self.q!r}, single={self.single})"


def symrot(name, n=None):
    """fresh symbolic rotation (path of length n, or single if n is None) and its unit-norm assumptions"""
    from .arr import symarr

    if n is None:
        r = SymRot(symarr(name, (4,)), True)
    else:
        r = SymRot(symarr(name, (n, 4)), False)
    return r, r.unit()
