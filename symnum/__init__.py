from .core import *  # noqa
from .core import CTX, S, SB, Abort, Unsupported, T, F, toz, tob, dof, AND, sym, symb, const, ufcall, ufpred, explore, run_concrete, model_env, complete_env, val_to_float
from .arr import SymArray, NP, NP_INSTANCE, wrap, fix, oarr, symarr, emap, has_sym, term_arrays_equal_formula, zwhere, zmin, zmax
from .rot import SymRot, symrot
from . import install
