"""SymNum core: solver terms with Python operator overloading, the path driver and the solver portfolio.

S  : real-valued term (z3 Real expression) + definedness formula
SB : boolean term; bool(SB) is the only fork point
Ctx: path condition, decision trace, definitions of fresh variables (sqrt, abstracted functions),
     cone-of-influence axiom selection, Ackermann congruence, float evaluation of terms (concolic / replay)
"""
import itertools
import math
import numbers
import sys
import time
from fractions import Fraction

import numpy as _np
import z3


class Abort(BaseException):
    """Raised when symbolic execution of a path cannot continue (budget, unsupported op)."""


class Unsupported(Abort):
    pass


T = z3.BoolVal(True)
F = z3.BoolVal(False)


def consts_of(e, acc, seen):
    stack = [e]
    while stack:
        e = stack.pop()
        i = e.get_id()
        if i in seen:
            continue
        seen.add(i)
        if z3.is_const(e) and e.decl().kind() == z3.Z3_OP_UNINTERPRETED:
            acc[i] = e
        else:
            stack.extend(e.children())


class Stats:
    def __init__(self):
        self.queries = 0
        self.time = {}
        self.results = {}
        self.by_backend = {}

    def add(self, backend, res, dt):
        self.queries += 1
        self.time[backend] = self.time.get(backend, 0.0) + dt
        self.results[res] = self.results.get(res, 0) + 1
        k = f"{backend}:{res}"
        self.by_backend[k] = self.by_backend.get(k, 0) + 1

    def as_dict(self):
        return {
            "queries": self.queries,
            "solver_time_s": {k: round(v, 3) for k, v in self.time.items()},
            "results": dict(self.results),
            "by_backend": dict(self.by_backend),
        }


class EnvModel(dict):
    """model returned by a forked solver run: name -> float/bool"""


class Ctx:
    def __init__(self):
        self.timeout = 10000  # ms per query (per backend attempt)
        self.decide_timeout = 4000
        self.resolve_minmax = False  # opt-in: min/max of two terms whose order is implied by the path condition is not an if-then-else
        self.feq_tol = None  # tolerance for == / != in float evaluation (set only while screening candidate models)  # ms for branch-feasibility queries (unknown = treated as feasible)
        self.stats = Stats()
        self.max_decisions = 400
        self.hard_reset()

    # ------------------------------------------------------------------ state
    def hard_reset(self):
        """forget all definitions (new, independent case)"""
        self.defs = {}  # var id -> axiom
        self.sqrt_tab = {}  # key -> (var, arg)
        self.sqrt_arg = {}  # var id -> arg expr
        self.uf_tab = {}  # (name, arg ids) -> var
        self.uf_apps = {}  # name -> [(var, args)]
        self.uf_args = {}  # var id -> (name, args)
        self.keep = []  # keep ASTs alive so ids stay unique
        self.nfresh = 0
        self.pre = []
        self.concrete_env = None
        self.concrete_trace = None
        self.site_log = None  # optional list of (source site, value) of every evaluated branch condition
        self.lemma_hook = None  # optional: (function name, relevant applications) -> extra lemma instances (recorded by the harness)
        self.concrete_funcs = getattr(self, "concrete_funcs", {})
        self.coverage = {}
        self.reset([])

    def reset(self, prefix):
        self.prefix = list(prefix)
        self.trace = []  # (cond, val, forced)
        self.pc = list(self.pre)
        self.cache = {}
        self._fcache = {}

    def fresh(self, base):
        self.nfresh += 1
        return z3.Real(f"{base}!{self.nfresh}")

    # ------------------------------------------------------------------ axioms
    def axioms_for(self, exprs):
        acc, seen = {}, set()
        for e in exprs:
            consts_of(e, acc, seen)
        out = []
        done = set()
        work = list(acc)
        while work:
            i = work.pop()
            if i in done:
                continue
            done.add(i)
            if i in self.defs:
                ax = self.defs[i]
                out.append(ax)
                a2 = {}
                consts_of(ax, a2, set())
                work.extend(a2)
            if i in self.uf_args:
                a2 = {}
                s2 = set()
                for a in self.uf_args[i][1]:
                    consts_of(a, a2, s2)
                work.extend(a2)
        for name, apps in self.uf_apps.items():
            rel = [(v, a) for v, a in apps if v.get_id() in done]
            for (v1, a1), (v2, a2) in itertools.combinations(rel, 2):
                out.append(z3.Implies(z3.And(*[x == y for x, y in zip(a1, a2)]), v1 == v2))
            if self.lemma_hook is not None:
                out.extend(self.lemma_hook(name, rel))
        return out

    # ------------------------------------------------------------------ solving
    def _run(self, backend, full, timeout):
        t = time.time()
        if backend == "nlsat":
            s = z3.Then("simplify", "purify-arith", "qfnra-nlsat").solver()
        else:
            s = z3.Solver()
        s.set("timeout", int(timeout))
        s.add(*full)
        # tactic pipelines do not always honour `timeout` (preprocessing of very large terms): hard interrupt as a backstop
        import threading

        wd = threading.Timer(timeout / 1000.0 + 1.5, z3.main_ctx().interrupt)
        wd.daemon = True
        wd.start()
        try:
            r = s.check()
        except z3.Z3Exception:
            r = z3.unknown
        finally:
            wd.cancel()
        res = str(r)
        self.stats.add(backend, res, time.time() - t)
        return res, s

    def _run_forked(self, backend, full, timeout):
        """run one query in a forked child that can be killed: nlsat occasionally ignores both its timeout and interrupts
        (algebraic-number computations); the parent never waits longer than timeout + 2 s."""
        import json as _json
        import os
        import select
        import signal

        t = time.time()
        r, w = os.pipe()
        pid = os.fork()
        if pid == 0:
            try:
                os.close(r)
                signal.setitimer(signal.ITIMER_REAL, 0)
                st = Stats()
                self.stats = st
                res, sol = self._run(backend, full, timeout)
                payload = {"res": res}
                if res == "sat":
                    m = sol.model()
                    env = {}
                    for d in m.decls():
                        if d.arity() == 0:
                            env[d.name()] = val_to_float(m[d])
                    payload["env"] = env
                data = _json.dumps(payload).encode()
                off = 0
                while off < len(data):
                    off += os.write(w, data[off:off + 65536])
            except BaseException:
                pass
            finally:
                os._exit(0)
        os.close(w)
        deadline = t + timeout / 1000.0 + 2.0
        chunks = []
        res, model = "unknown", None
        try:
            while True:
                left = deadline - time.time()
                if left <= 0:
                    break
                ready, _, _ = select.select([r], [], [], left)
                if not ready:
                    break
                b = os.read(r, 1 << 20)
                if not b:
                    break
                chunks.append(b)
            if chunks:
                try:
                    payload = _json.loads(b"".join(chunks).decode())
                    res = payload["res"]
                    if res == "sat":
                        model = EnvModel(payload.get("env", {}))
                except Exception:
                    res = "unknown"
        finally:
            os.close(r)
            try:
                os.kill(pid, signal.SIGKILL)
            except ProcessLookupError:
                pass
            try:
                os.waitpid(pid, 0)
            except ChildProcessError:
                pass
        self.stats.add(backend + "/forked", res, time.time() - t)
        return res, model

    def solve(self, exprs, timeout=None, want_model=False, with_axioms=True, guard=False, mode="full"):
        """portfolio; returns (res, solver|None, backend)   res in 'sat','unsat','unknown'
        mode: 'quick' = abstraction-only stage + one short nlsat run; 'rest' = the long runs only; 'full' = both"""
        timeout = timeout or self.timeout
        exprs = [e for e in exprs if not z3.is_true(e)]
        if any(z3.is_false(e) for e in exprs):
            return "unsat", None, "syntactic"
        axioms = self.axioms_for(exprs) if with_axioms else []
        if axioms and mode != "rest":
            # stage 0: without the definitions of the fresh variables (pure abstraction).  unsat here is unsat with them.
            res, s = self._run("nlsat", exprs, min(timeout, 2000))
            if res == "unsat":
                return res, s, "nlsat/no-axioms"
            if res == "unknown":
                res, s = self._run("smt", exprs, min(timeout, 2000))
                if res == "unsat":
                    return res, s, "smt/no-axioms"
        full = exprs + axioms
        plan = [("nlsat", min(timeout, 2500)), ("smt", timeout), ("nlsat", timeout)]
        if timeout <= 5000:
            plan = [("nlsat", timeout // 2), ("smt", timeout // 2)]
        if mode == "quick":
            plan = [("nlsat", min(timeout, 2500))]
        elif mode == "rest":
            plan = [("smt", timeout), ("nlsat", timeout)]
        last = None
        risky = guard and bool(axioms) and len(full) > 12  # obligations only: forking every feasibility query doubled the run time
        for backend, to in plan:
            if backend == "nlsat" and risky:
                res, s = self._run_forked(backend, full, to)
            else:
                res, s = self._run(backend, full, to)
            last = s
            if res in ("sat", "unsat"):
                return res, s, backend
        return "unknown", last, "portfolio"

    def check(self, exprs, timeout=None):
        return self.solve(exprs, timeout)[0]

    def cross_check(self, exprs, timeout_ms=4000):
        """re-decide a query with cvc5 (second, independent solver) on the SMT-LIB2 dump; returns 'sat' / 'unsat' / 'unknown' / 'unavailable'"""
        try:
            import cvc5
        except Exception:  # noqa
            return "unavailable"
        t = time.time()
        exprs = [e for e in exprs if not z3.is_true(e)]
        full = exprs + self.axioms_for(exprs)
        s = z3.Solver()
        s.add(*full)
        txt = s.to_smt2()
        res = self._in_child(lambda: self._cvc5_run(cvc5, txt, timeout_ms), timeout_ms / 1000.0 + 3.0)
        self.stats.add("cvc5", res, time.time() - t)
        return res

    def _in_child(self, fn, limit_s):
        """run fn() -> str in a forked child that is killed after limit_s (cvc5 does not always honour its time limit)"""
        import os
        import select
        import signal

        r, w = os.pipe()
        pid = os.fork()
        if pid == 0:
            try:
                os.close(r)
                signal.setitimer(signal.ITIMER_REAL, 0)
                os.write(w, str(fn()).encode())
            except BaseException:
                pass
            finally:
                os._exit(0)
        os.close(w)
        out = "unknown"
        try:
            ready, _, _ = select.select([r], [], [], limit_s)
            if ready:
                b = os.read(r, 64)
                if b:
                    out = b.decode()
        finally:
            os.close(r)
            try:
                os.kill(pid, signal.SIGKILL)
            except ProcessLookupError:
                pass
            try:
                os.waitpid(pid, 0)
            except ChildProcessError:
                pass
        return out if out in ("sat", "unsat", "unknown") else "unknown"

    def _cvc5_run(self, cvc5, txt, timeout_ms):
        res = "unknown"
        try:
            slv = cvc5.Solver()
            slv.setOption("tlimit-per", str(int(timeout_ms)))
            slv.setLogic("QF_NIRA" if "to_int" in txt else "QF_NRA")
            prs = cvc5.InputParser(slv)
            prs.setStringInput(cvc5.InputLanguage.SMT_LIB_2_6, txt, "q")
            sm = prs.getSymbolManager()
            while True:
                cmd = prs.nextCommand()
                if cmd.isNull():
                    break
                out = str(cmd.invoke(slv, sm)).strip()
                if out in ("sat", "unsat", "unknown"):
                    res = out
        except Exception:  # noqa
            res = "unknown"
        return res

    # ------------------------------------------------------------------ forking
    def _site(self):
        f = sys._getframe(2)
        while f is not None:
            fn = f.f_code.co_filename
            if "/symnum/" not in fn and "numpy" not in fn and not fn.startswith("<"):
                if "magpylib" in fn:
                    return f"{fn.split('magpylib/')[-1]}:{f.f_lineno}"
            f = f.f_back
        return None

    def decide(self, cond):
        if self.concrete_env is not None:
            if self.concrete_trace is None:
                return bool(self.evalf(cond, self.concrete_env))
            # record the decisions exactly as the symbolic mode would number them
            cs = z3.simplify(cond)
            if z3.is_true(cs):
                return True
            if z3.is_false(cs):
                return False
            k = cs.get_id()
            if k in self.cache:
                return self.cache[k]
            v = bool(self.evalf(cond, self.concrete_env))
            self.keep.append(cs)
            self.cache[k] = v
            self.concrete_trace.append(v)
            return v
        cond = z3.simplify(cond)
        if self.site_log is not None:
            # log every evaluated branch condition with its source site, also the syntactically decided ones
            v = True if z3.is_true(cond) else (False if z3.is_false(cond) else None)
            if v is None and cond.get_id() in self.cache:
                v = self.cache[cond.get_id()]
            if v is not None:
                self.site_log.append((self._site(), v))
                return v
        if z3.is_true(cond):
            return True
        if z3.is_false(cond):
            return False
        key = cond.get_id()
        if key in self.cache:
            return self.cache[key]
        if len(self.trace) >= self.max_decisions:
            raise Abort("decision budget")
        i = len(self.trace)
        forced = False
        if i < len(self.prefix):
            val = self.prefix[i]
        else:
            r = self.check(self.pc + [cond], timeout=self.decide_timeout)
            if r == "unsat":
                val, forced = False, True
            else:
                val = True
        self.keep.append(cond)
        self.trace.append((cond, val, forced))
        self.pc.append(cond if val else z3.Not(cond))
        self.cache[key] = val
        site = self._site()
        if site:
            self.coverage.setdefault(site, set()).add(val)
        if self.site_log is not None:
            self.site_log.append((site, val))
        return val

    # ------------------------------------------------------------------ float evaluation
    def evalf(self, e, env):
        """evaluate a term in doubles; env: name -> float/bool.  Fresh variables are evaluated
        through their definitions (sqrt -> math.sqrt, abstracted functions -> registered callables)."""
        cache = self._fcache if env is self.concrete_env else {}
        return self._evalf(e, env, cache)

    def _evalf(self, e, env, cache):
        i = e.get_id()
        if i in cache:
            return cache[i][1]
        sys.setrecursionlimit(max(sys.getrecursionlimit(), 20000))
        k = e.decl().kind()
        ch = e.children()
        ev = lambda x: self._evalf(x, env, cache)
        if k == z3.Z3_OP_ANUM:
            if z3.is_rational_value(e):
                r = float(Fraction(e.numerator_as_long(), e.denominator_as_long()))
            else:
                r = float(e.approx(20).as_fraction())
        elif k == z3.Z3_OP_UNINTERPRETED and not ch:
            name = str(e)
            if name in env:
                r = env[name]
            elif i in self.sqrt_arg:
                a = ev(self.sqrt_arg[i])
                r = math.sqrt(a) if a >= 0 else float("nan")
            elif i in self.uf_args:
                fname, args = self.uf_args[i]
                r = self._call_concrete(fname, [ev(a) for a in args])
            else:
                raise KeyError(f"no value for {name}")
        elif k == z3.Z3_OP_ADD:
            r = sum(ev(c) for c in ch)
        elif k == z3.Z3_OP_SUB:
            r = ev(ch[0])
            for c in ch[1:]:
                r = r - ev(c)
        elif k == z3.Z3_OP_MUL:
            r = 1.0
            for c in ch:
                r = r * ev(c)
        elif k == z3.Z3_OP_DIV:
            a, b = ev(ch[0]), ev(ch[1])
            try:
                r = a / b
            except ZeroDivisionError:
                r = float("nan") if a == 0 or a != a else math.copysign(float("inf"), a)
        elif k == z3.Z3_OP_UMINUS:
            r = -ev(ch[0])
        elif k == z3.Z3_OP_POWER:
            r = ev(ch[0]) ** ev(ch[1])
        elif k == z3.Z3_OP_ITE:
            r = ev(ch[1]) if ev(ch[0]) else ev(ch[2])
        elif k == z3.Z3_OP_LE:
            r = ev(ch[0]) <= ev(ch[1])
        elif k == z3.Z3_OP_LT:
            r = ev(ch[0]) < ev(ch[1])
        elif k == z3.Z3_OP_GE:
            r = ev(ch[0]) >= ev(ch[1])
        elif k == z3.Z3_OP_GT:
            r = ev(ch[0]) > ev(ch[1])
        elif k == z3.Z3_OP_EQ:
            a, b = ev(ch[0]), ev(ch[1])
            if self.feq_tol and isinstance(a, float) and isinstance(b, float):
                r = abs(a - b) <= self.feq_tol * (1 + abs(a) + abs(b))
            else:
                r = a == b
        elif k == z3.Z3_OP_DISTINCT:
            vals = [ev(c) for c in ch]
            if self.feq_tol and len(vals) == 2 and all(isinstance(v, float) for v in vals):
                r = abs(vals[0] - vals[1]) > self.feq_tol * (1 + abs(vals[0]) + abs(vals[1]))
            else:
                r = len(set(vals)) == len(vals)
        elif k == z3.Z3_OP_AND:
            r = all(ev(c) for c in ch)
        elif k == z3.Z3_OP_OR:
            r = any(ev(c) for c in ch)
        elif k == z3.Z3_OP_NOT:
            r = not ev(ch[0])
        elif k == z3.Z3_OP_IMPLIES:
            r = (not ev(ch[0])) or ev(ch[1])
        elif k == z3.Z3_OP_TRUE:
            r = True
        elif k == z3.Z3_OP_FALSE:
            r = False
        elif k == z3.Z3_OP_TO_REAL:
            r = float(ev(ch[0]))
        elif k == z3.Z3_OP_TO_INT:
            v = ev(ch[0])
            r = math.floor(v) if v == v and abs(v) != float("inf") else v
        else:
            raise Unsupported(f"evalf: op {e.decl()}")
        cache[i] = (e, r)  # keep e alive: ids of dead ASTs are reused
        return r

    def _call_concrete(self, name, args):
        if name in self.concrete_funcs:
            r = self.concrete_funcs[name](*args)
            return bool(r) if isinstance(r, (bool, _np.bool_)) else float(r)
        base = {
            "log": lambda x: math.log(x) if x > 0 else (float("-inf") if x == 0 else float("nan")),
            "atan2": math.atan2,
            "atan": math.atan,
            "cos": math.cos,
            "sin": math.sin,
            "tan": math.tan,
            "arcsinh": math.asinh,
            "arctanh": lambda x: math.atanh(x) if abs(x) < 1 else float("nan"),
            "exp": math.exp,
            "arccos": lambda x: math.acos(x) if abs(x) <= 1 else float("nan"),
        }
        if name in base:
            return base[name](*args)
        raise KeyError(f"no concrete function for {name}")


CTX = Ctx()


# ---------------------------------------------------------------------- conversions
def toz(v):
    if isinstance(v, S):
        return v.z
    if isinstance(v, SB):
        return z3.If(v.z, z3.RealVal(1), z3.RealVal(0))
    if isinstance(v, (bool, _np.bool_)):
        return z3.RealVal(int(v))
    if isinstance(v, (int, _np.integer)):
        return z3.RealVal(int(v))
    if isinstance(v, (float, _np.floating)):
        f = float(v)
        if math.isnan(f) or math.isinf(f):
            raise Abort("nonfinite const")
        if f == int(f) and abs(f) < 1e15:
            return z3.RealVal(int(f))
        return z3.RealVal(str(Fraction(f)))
    if isinstance(v, Fraction):
        return z3.RealVal(str(v))
    if isinstance(v, _np.ndarray) and v.ndim == 0:
        return toz(v.item())
    raise TypeError(f"toz: {type(v)}")


def dof(v):
    return v.d if isinstance(v, S) else T


def tob(o):
    if isinstance(o, SB):
        return o.z
    if isinstance(o, S):
        return o.z != 0
    return z3.BoolVal(bool(o))


def AND(*a):
    a = [x for x in a if not z3.is_true(x)]
    return T if not a else (a[0] if len(a) == 1 else z3.And(*a))


class SB:
    __slots__ = ("z",)

    def __init__(self, z):
        self.z = z

    def __bool__(self):
        return CTX.decide(self.z)

    def __and__(self, o):
        return SB(z3.And(self.z, tob(o)))

    __rand__ = __and__

    def __or__(self, o):
        return SB(z3.Or(self.z, tob(o)))

    __ror__ = __or__

    def __xor__(self, o):
        return SB(z3.Xor(self.z, tob(o)))

    __rxor__ = __xor__

    def __invert__(self):
        return SB(z3.Not(self.z))

    def __mul__(self, o):
        if isinstance(o, (SB, bool, _np.bool_)):
            return SB(z3.And(self.z, tob(o)))
        return S(toz(self)) * o

    __rmul__ = __mul__

    def __add__(self, o):
        return S(toz(self) + toz(o))

    __radd__ = __add__

    def __eq__(self, o):
        return SB(self.z == tob(o))

    def __ne__(self, o):
        return SB(self.z != tob(o))

    __hash__ = None

    def __repr__(self):
        return f"SB({self.z})"


class S:
    __slots__ = ("z", "d")

    def __init__(self, z, d=T):
        self.z = z
        self.d = d

    def _b(self, o, f):
        try:
            oz = toz(o)
        except TypeError:
            return NotImplemented
        return S(f(self.z, oz), AND(self.d, dof(o)))

    def __add__(self, o):
        return self._b(o, lambda a, b: a + b)

    def __radd__(self, o):
        return self._b(o, lambda a, b: b + a)

    def __sub__(self, o):
        return self._b(o, lambda a, b: a - b)

    def __rsub__(self, o):
        return self._b(o, lambda a, b: b - a)

    def __mul__(self, o):
        return self._b(o, lambda a, b: a * b)

    def __rmul__(self, o):
        return self._b(o, lambda a, b: b * a)

    def __neg__(self):
        return S(-self.z, self.d)

    def __pos__(self):
        return self

    def __truediv__(self, o):
        try:
            d = toz(o)
        except TypeError:
            return NotImplemented
        return S(self.z / d, AND(self.d, dof(o), d != 0))

    def __rtruediv__(self, o):
        try:
            n = toz(o)
        except TypeError:
            return NotImplemented
        return S(n / self.z, AND(self.d, dof(o), self.z != 0))

    def __pow__(self, o):
        if isinstance(o, (int, _np.integer)) or (isinstance(o, (float, _np.floating)) and float(o) == int(o)):
            n = int(o)
            if n >= 0:
                r = z3.RealVal(1)
                for _ in range(n):
                    r = r * self.z
                return S(r, self.d)
            r = z3.RealVal(1)
            for _ in range(-n):
                r = r * self.z
            return S(z3.RealVal(1) / r, AND(self.d, self.z != 0))
        if isinstance(o, (float, _np.floating)):
            two = float(o) * 2
            if two == int(two):  # half-integer power
                n = int(two)
                rt = self.sqrt()
                return rt ** n
        raise Unsupported(f"pow {o!r}")

    def __abs__(self):
        return S(z3.If(self.z >= 0, self.z, -self.z), self.d)

    def __mod__(self, o):
        m = toz(o)
        q = z3.ToReal(z3.ToInt(self.z / m))
        return S(self.z - m * q, AND(self.d, dof(o), m != 0))

    def __lt__(self, o):
        return SB(self.z < toz(o))

    def __le__(self, o):
        return SB(self.z <= toz(o))

    def __gt__(self, o):
        return SB(self.z > toz(o))

    def __ge__(self, o):
        return SB(self.z >= toz(o))

    def __eq__(self, o):
        try:
            return SB(self.z == toz(o))
        except TypeError:
            return False

    def __ne__(self, o):
        try:
            return SB(self.z != toz(o))
        except TypeError:
            return True

    __hash__ = None

    def __bool__(self):
        return CTX.decide(self.z != 0)

    def __float__(self):
        if CTX.concrete_env is not None:
            return float(CTX.evalf(self.z, CTX.concrete_env))
        zs = z3.simplify(self.z)
        if z3.is_rational_value(zs):
            return float(Fraction(zs.numerator_as_long(), zs.denominator_as_long()))
        raise Abort("float() on symbolic value")

    def __int__(self):
        return int(float(self))

    # --- non-polynomial operations
    def sqrt(self):
        zs = z3.simplify(self.z)
        if z3.is_rational_value(zs):
            fr = Fraction(zs.numerator_as_long(), zs.denominator_as_long())
            if fr >= 0:
                n, d = math.isqrt(fr.numerator), math.isqrt(fr.denominator)
                if n * n == fr.numerator and d * d == fr.denominator:
                    return S(z3.RealVal(str(Fraction(n, d))), self.d)
        key = zs.get_id()
        if key not in CTX.sqrt_tab:
            v = CTX.fresh("sqrt")
            CTX.sqrt_tab[key] = v
            CTX.keep.append(zs)
            dfn = [v >= 0, v * v == self.z]
            if z3.is_rational_value(zs) and zs.numerator_as_long() > 0:
                # square root of a concrete non-square rational: add the (implied) enclosure lo <= v <= lo + 1e-18, which lets the linear
                # engine decide comparisons that otherwise need nlsat over many algebraic numbers
                fr = Fraction(zs.numerator_as_long(), zs.denominator_as_long())
                sc = 10 ** 18
                lo = Fraction(math.isqrt(fr.numerator * sc * sc // fr.denominator), sc)
                dfn += [v >= z3.RealVal(str(lo)), v <= z3.RealVal(str(lo + Fraction(1, sc)))]
            CTX.defs[v.get_id()] = z3.And(*dfn)
            CTX.sqrt_arg[v.get_id()] = self.z
        return S(CTX.sqrt_tab[key], AND(self.d, self.z >= 0))

    def _uf(self, name, *others, dom=None):
        args = [self.z] + [toz(o) for o in others]
        sargs = [z3.simplify(a) for a in args]
        key = (name, tuple(a.get_id() for a in sargs))
        if key not in CTX.uf_tab:
            v = CTX.fresh(name)
            CTX.uf_tab[key] = v
            CTX.keep.extend(sargs)
            CTX.uf_apps.setdefault(name, []).append((v, args))
            CTX.uf_args[v.get_id()] = (name, args)
        d = AND(self.d, *[dof(o) for o in others])
        if dom is not None:
            d = AND(d, dom)
        return S(CTX.uf_tab[key], d)

    def log(self):
        return self._uf("log", dom=self.z > 0)

    def arctan2(self, o):
        return self._uf("atan2", o)

    def arctan(self):
        return self._uf("atan")

    def hypot(self, o):
        o = o if isinstance(o, S) else S(toz(o))
        return (self * self + o * o).sqrt()

    def cos(self):
        zs = z3.simplify(self.z)
        if z3.is_rational_value(zs) and zs.numerator_as_long() == 0:
            return S(z3.RealVal(1), self.d)
        return self._uf("cos")

    def sin(self):
        zs = z3.simplify(self.z)
        if z3.is_rational_value(zs) and zs.numerator_as_long() == 0:
            return S(z3.RealVal(0), self.d)
        return self._uf("sin")

    def tan(self):
        return self._uf("tan")

    def exp(self):
        return self._uf("exp")

    def arcsinh(self):
        return self._uf("arcsinh")

    def arctanh(self):
        return self._uf("arctanh", dom=z3.And(self.z > -1, self.z < 1))

    def arccos(self):
        return self._uf("arccos", dom=z3.And(self.z >= -1, self.z <= 1))

    def fabs(self):
        return abs(self)

    def conjugate(self):
        return self

    def __repr__(self):
        return f"S({self.z})"


numbers.Number.register(S)


def ufcall(name, args, dom=None):
    """abstracted (uninterpreted) function application name(args) -> S"""
    a0 = args[0] if isinstance(args[0], S) else S(toz(args[0]))
    return a0._uf(name, *args[1:], dom=dom)


def ufpred(name, args):
    """abstracted (uninterpreted) predicate application name(args) -> SB"""
    zargs = [toz(a) for a in args]
    sargs = [z3.simplify(a) for a in zargs]
    key = (name, tuple(a.get_id() for a in sargs))
    if key not in CTX.uf_tab:
        CTX.nfresh += 1
        v = z3.Bool(f"{name}!{CTX.nfresh}")
        CTX.uf_tab[key] = v
        CTX.keep.extend(sargs)
        CTX.uf_apps.setdefault(name, []).append((v, zargs))
        CTX.uf_args[v.get_id()] = (name, zargs)
    return SB(CTX.uf_tab[key])


def sym(name):
    return S(z3.Real(name))


def symb(name):
    return SB(z3.Bool(name))


def const(v):
    return S(toz(v))


# ---------------------------------------------------------------------- path driver
class Path:
    __slots__ = ("status", "out", "pc", "decisions", "maybe_infeasible")

    def __init__(self, status, out, pc, decisions):
        self.status = status
        self.out = out
        self.pc = pc
        self.decisions = decisions


def trace_concrete(fn, env):
    """decision sequence of fn for one concrete input (used to explore generic paths first)"""
    CTX.reset([])
    CTX.concrete_env = env
    CTX.concrete_trace = []
    CTX._fcache = {}
    try:
        fn()
        return list(CTX.concrete_trace)
    except BaseException:
        return None
    finally:
        CTX.concrete_env = None
        CTX.concrete_trace = None


def explore(fn, max_paths=500, verbose=False, on_path=None, seeds=()):
    """DFS over the feasible decision sequences of fn (fresh execution of the real code per path).
    Returns list of Path.  If on_path is given it is called right after each path, while the
    definitions of that path are current.  seeds: concrete input environments whose paths are explored first."""
    stack = [[]]
    seed_prefixes = set()
    for env in seeds:
        tr = trace_concrete(fn, env)
        if tr:
            stack.append(tr)
            seed_prefixes.add(tuple(tr))
    results = []
    seen_paths = set()
    truncated = False
    while stack:
        if len(results) >= max_paths:
            truncated = True
            break
        prefix = stack.pop()
        CTX.reset(prefix)
        t = time.time()
        try:
            out = fn()
            status = "ok"
        except Abort as e:
            out = e
            status = "abort"
        trace = list(CTX.trace)
        p = Path(status, out, list(CTX.pc), [v for _, v, _ in trace])
        sig = tuple(p.decisions)
        if sig in seen_paths:
            continue
        seen_paths.add(sig)
        results.append(p)
        if verbose:
            print(
                f"path {len(results)} dec={len(trace)} {status} t={time.time()-t:.2f}s nq={CTX.stats.queries}",
                flush=True,
            )
        if on_path is not None:
            on_path(p)
        # alternatives of a seed path are scheduled for all of its decisions (it was not reached through its ancestors)
        sched_from = 0 if tuple(prefix) in seed_prefixes else len(prefix)
        for i in range(sched_from, len(trace)):
            cond, val, forced = trace[i]
            if forced:
                continue
            pc_i = list(CTX.pre) + [c if v else z3.Not(c) for c, v, _ in trace[:i]]
            r = CTX.check(pc_i + [z3.Not(cond) if val else cond], timeout=CTX.decide_timeout)
            if r != "unsat":
                stack.append([v for _, v, _ in trace[:i]] + [not val])
    explore.truncated = truncated
    return results


explore.truncated = False


def run_concrete(fn, env):
    """run fn once with decisions taken by float evaluation under env (concolic mode)"""
    CTX.reset([])
    CTX.concrete_env = env
    CTX._fcache = {}
    try:
        return fn()
    finally:
        CTX.concrete_env = None


# ---------------------------------------------------------------------- models
def val_to_float(v):
    if v is None:
        return None
    if z3.is_true(v):
        return True
    if z3.is_false(v):
        return False
    if z3.is_rational_value(v):
        return float(Fraction(v.numerator_as_long(), v.denominator_as_long()))
    if z3.is_algebraic_value(v):
        return float(v.approx(20).as_fraction())
    try:
        return float(v.as_fraction())
    except Exception:
        return None


def val_to_str(v):
    if v is None:
        return None
    if z3.is_rational_value(v):
        return str(Fraction(v.numerator_as_long(), v.denominator_as_long()))
    return str(v)


def model_env(solver, names=None):
    """dict name -> float for all non-fresh variables of the model"""
    if isinstance(solver, EnvModel):
        return {k: v for k, v in solver.items() if "!" not in k and (names is None or k in names)}
    m = solver.model()
    env = {}
    for d in m.decls():
        n = d.name()
        if "!" in n:
            continue
        if names is not None and n not in names:
            continue
        if d.arity() != 0:
            continue
        env[n] = val_to_float(m[d])
    return env


def complete_env(env, exprs, default=0.0):
    """give every free non-fresh variable of exprs a value"""
    acc, seen = {}, set()
    for e in exprs:
        consts_of(e, acc, seen)
    for e in acc.values():
        n = str(e)
        if "!" in n:
            continue
        if n not in env or env[n] is None:
            env[n] = False if z3.is_bool(e) else default
    return env
